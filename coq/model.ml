
type __ = Obj.t

(** val negb : bool -> bool **)

let negb = function
| true -> false
| false -> true

type nat =
| O
| S of nat

type ('a, 'b) sum =
| Inl of 'a
| Inr of 'b

(** val fst : ('a1 * 'a2) -> 'a1 **)

let fst = function
| (x, _) -> x

(** val snd : ('a1 * 'a2) -> 'a2 **)

let snd = function
| (_, y) -> y

(** val length : 'a1 list -> nat **)

let rec length = function
| [] -> O
| _ :: l' -> S (length l')

(** val app : 'a1 list -> 'a1 list -> 'a1 list **)

let rec app l m =
  match l with
  | [] -> m
  | a :: l1 -> a :: (app l1 m)

type comparison =
| Eq
| Lt
| Gt

(** val compOpp : comparison -> comparison **)

let compOpp = function
| Eq -> Eq
| Lt -> Gt
| Gt -> Lt

module Coq__1 = struct
 (** val add : nat -> nat -> nat **)
 let rec add n0 m =
   match n0 with
   | O -> m
   | S p -> S (add p m)
end
include Coq__1

(** val eqb : bool -> bool -> bool **)

let eqb b1 b2 =
  if b1 then b2 else if b2 then false else true

module Nat =
 struct
  (** val eqb : nat -> nat -> bool **)

  let rec eqb n0 m =
    match n0 with
    | O -> (match m with
            | O -> true
            | S _ -> false)
    | S n' -> (match m with
               | O -> false
               | S m' -> eqb n' m')
 end

(** val nth : nat -> 'a1 list -> 'a1 -> 'a1 **)

let rec nth n0 l default =
  match n0 with
  | O -> (match l with
          | [] -> default
          | x :: _ -> x)
  | S m -> (match l with
            | [] -> default
            | _ :: t -> nth m t default)

(** val nth_error : 'a1 list -> nat -> 'a1 option **)

let rec nth_error l = function
| O -> (match l with
        | [] -> None
        | x :: _ -> Some x)
| S n1 -> (match l with
           | [] -> None
           | _ :: l0 -> nth_error l0 n1)

(** val rev : 'a1 list -> 'a1 list **)

let rec rev = function
| [] -> []
| x :: l' -> app (rev l') (x :: [])

(** val rev_append : 'a1 list -> 'a1 list -> 'a1 list **)

let rec rev_append l l' =
  match l with
  | [] -> l'
  | a :: l0 -> rev_append l0 (a :: l')

(** val concat : 'a1 list list -> 'a1 list **)

let rec concat = function
| [] -> []
| x :: l0 -> app x (concat l0)

(** val map : ('a1 -> 'a2) -> 'a1 list -> 'a2 list **)

let rec map f = function
| [] -> []
| a :: t -> (f a) :: (map f t)

(** val flat_map : ('a1 -> 'a2 list) -> 'a1 list -> 'a2 list **)

let rec flat_map f = function
| [] -> []
| x :: t -> app (f x) (flat_map f t)

(** val fold_left : ('a1 -> 'a2 -> 'a1) -> 'a2 list -> 'a1 -> 'a1 **)

let rec fold_left f l a0 =
  match l with
  | [] -> a0
  | b :: t -> fold_left f t (f a0 b)

(** val fold_right : ('a2 -> 'a1 -> 'a1) -> 'a1 -> 'a2 list -> 'a1 **)

let rec fold_right f a0 = function
| [] -> a0
| b :: t -> f b (fold_right f a0 t)

(** val existsb : ('a1 -> bool) -> 'a1 list -> bool **)

let rec existsb f = function
| [] -> false
| a :: l0 -> (||) (f a) (existsb f l0)

(** val forallb : ('a1 -> bool) -> 'a1 list -> bool **)

let rec forallb f = function
| [] -> true
| a :: l0 -> (&&) (f a) (forallb f l0)

(** val firstn : nat -> 'a1 list -> 'a1 list **)

let rec firstn n0 l =
  match n0 with
  | O -> []
  | S n1 -> (match l with
             | [] -> []
             | a :: l0 -> a :: (firstn n1 l0))

(** val skipn : nat -> 'a1 list -> 'a1 list **)

let rec skipn n0 l =
  match n0 with
  | O -> l
  | S n1 -> (match l with
             | [] -> []
             | _ :: l0 -> skipn n1 l0)

type positive =
| XI of positive
| XO of positive
| XH

type n =
| N0
| Npos of positive

type z =
| Z0
| Zpos of positive
| Zneg of positive

module Pos =
 struct
  type mask =
  | IsNul
  | IsPos of positive
  | IsNeg
 end

module Coq_Pos =
 struct
  (** val succ : positive -> positive **)

  let rec succ = function
  | XI p -> XO (succ p)
  | XO p -> XI p
  | XH -> XO XH

  (** val add : positive -> positive -> positive **)

  let rec add x y =
    match x with
    | XI p ->
      (match y with
       | XI q -> XO (add_carry p q)
       | XO q -> XI (add p q)
       | XH -> XO (succ p))
    | XO p ->
      (match y with
       | XI q -> XI (add p q)
       | XO q -> XO (add p q)
       | XH -> XI p)
    | XH -> (match y with
             | XI q -> XO (succ q)
             | XO q -> XI q
             | XH -> XO XH)

  (** val add_carry : positive -> positive -> positive **)

  and add_carry x y =
    match x with
    | XI p ->
      (match y with
       | XI q -> XI (add_carry p q)
       | XO q -> XO (add_carry p q)
       | XH -> XI (succ p))
    | XO p ->
      (match y with
       | XI q -> XO (add_carry p q)
       | XO q -> XI (add p q)
       | XH -> XO (succ p))
    | XH ->
      (match y with
       | XI q -> XI (succ q)
       | XO q -> XO (succ q)
       | XH -> XI XH)

  (** val pred_double : positive -> positive **)

  let rec pred_double = function
  | XI p -> XI (XO p)
  | XO p -> XI (pred_double p)
  | XH -> XH

  (** val pred_N : positive -> n **)

  let pred_N = function
  | XI p -> Npos (XO p)
  | XO p -> Npos (pred_double p)
  | XH -> N0

  type mask = Pos.mask =
  | IsNul
  | IsPos of positive
  | IsNeg

  (** val succ_double_mask : mask -> mask **)

  let succ_double_mask = function
  | IsNul -> IsPos XH
  | IsPos p -> IsPos (XI p)
  | IsNeg -> IsNeg

  (** val double_mask : mask -> mask **)

  let double_mask = function
  | IsPos p -> IsPos (XO p)
  | x0 -> x0

  (** val double_pred_mask : positive -> mask **)

  let double_pred_mask = function
  | XI p -> IsPos (XO (XO p))
  | XO p -> IsPos (XO (pred_double p))
  | XH -> IsNul

  (** val sub_mask : positive -> positive -> mask **)

  let rec sub_mask x y =
    match x with
    | XI p ->
      (match y with
       | XI q -> double_mask (sub_mask p q)
       | XO q -> succ_double_mask (sub_mask p q)
       | XH -> IsPos (XO p))
    | XO p ->
      (match y with
       | XI q -> succ_double_mask (sub_mask_carry p q)
       | XO q -> double_mask (sub_mask p q)
       | XH -> IsPos (pred_double p))
    | XH -> (match y with
             | XH -> IsNul
             | _ -> IsNeg)

  (** val sub_mask_carry : positive -> positive -> mask **)

  and sub_mask_carry x y =
    match x with
    | XI p ->
      (match y with
       | XI q -> succ_double_mask (sub_mask_carry p q)
       | XO q -> double_mask (sub_mask p q)
       | XH -> IsPos (pred_double p))
    | XO p ->
      (match y with
       | XI q -> double_mask (sub_mask_carry p q)
       | XO q -> succ_double_mask (sub_mask_carry p q)
       | XH -> double_pred_mask p)
    | XH -> IsNeg

  (** val mul : positive -> positive -> positive **)

  let rec mul x y =
    match x with
    | XI p -> add y (XO (mul p y))
    | XO p -> XO (mul p y)
    | XH -> y

  (** val iter : ('a1 -> 'a1) -> 'a1 -> positive -> 'a1 **)

  let rec iter f x = function
  | XI n' -> f (iter f (iter f x n') n')
  | XO n' -> iter f (iter f x n') n'
  | XH -> f x

  (** val pow : positive -> positive -> positive **)

  let pow x =
    iter (mul x) XH

  (** val compare_cont : comparison -> positive -> positive -> comparison **)

  let rec compare_cont r x y =
    match x with
    | XI p ->
      (match y with
       | XI q -> compare_cont r p q
       | XO q -> compare_cont Gt p q
       | XH -> Gt)
    | XO p ->
      (match y with
       | XI q -> compare_cont Lt p q
       | XO q -> compare_cont r p q
       | XH -> Gt)
    | XH -> (match y with
             | XH -> r
             | _ -> Lt)

  (** val compare : positive -> positive -> comparison **)

  let compare =
    compare_cont Eq

  (** val eqb : positive -> positive -> bool **)

  let rec eqb p q =
    match p with
    | XI p0 -> (match q with
                | XI q0 -> eqb p0 q0
                | _ -> false)
    | XO p0 -> (match q with
                | XO q0 -> eqb p0 q0
                | _ -> false)
    | XH -> (match q with
             | XH -> true
             | _ -> false)

  (** val coq_Nsucc_double : n -> n **)

  let coq_Nsucc_double = function
  | N0 -> Npos XH
  | Npos p -> Npos (XI p)

  (** val coq_Ndouble : n -> n **)

  let coq_Ndouble = function
  | N0 -> N0
  | Npos p -> Npos (XO p)

  (** val coq_lor : positive -> positive -> positive **)

  let rec coq_lor p q =
    match p with
    | XI p0 ->
      (match q with
       | XI q0 -> XI (coq_lor p0 q0)
       | XO q0 -> XI (coq_lor p0 q0)
       | XH -> p)
    | XO p0 ->
      (match q with
       | XI q0 -> XI (coq_lor p0 q0)
       | XO q0 -> XO (coq_lor p0 q0)
       | XH -> XI p0)
    | XH -> (match q with
             | XO q0 -> XI q0
             | _ -> q)

  (** val coq_land : positive -> positive -> n **)

  let rec coq_land p q =
    match p with
    | XI p0 ->
      (match q with
       | XI q0 -> coq_Nsucc_double (coq_land p0 q0)
       | XO q0 -> coq_Ndouble (coq_land p0 q0)
       | XH -> Npos XH)
    | XO p0 ->
      (match q with
       | XI q0 -> coq_Ndouble (coq_land p0 q0)
       | XO q0 -> coq_Ndouble (coq_land p0 q0)
       | XH -> N0)
    | XH -> (match q with
             | XO _ -> N0
             | _ -> Npos XH)

  (** val testbit : positive -> n -> bool **)

  let rec testbit p n0 =
    match p with
    | XI p0 -> (match n0 with
                | N0 -> true
                | Npos n1 -> testbit p0 (pred_N n1))
    | XO p0 -> (match n0 with
                | N0 -> false
                | Npos n1 -> testbit p0 (pred_N n1))
    | XH -> (match n0 with
             | N0 -> true
             | Npos _ -> false)

  (** val iter_op : ('a1 -> 'a1 -> 'a1) -> positive -> 'a1 -> 'a1 **)

  let rec iter_op op p a =
    match p with
    | XI p0 -> op a (iter_op op p0 (op a a))
    | XO p0 -> iter_op op p0 (op a a)
    | XH -> a

  (** val to_nat : positive -> nat **)

  let to_nat x =
    iter_op Coq__1.add x (S O)

  (** val of_succ_nat : nat -> positive **)

  let rec of_succ_nat = function
  | O -> XH
  | S x -> succ (of_succ_nat x)
 end

module N =
 struct
  (** val succ_double : n -> n **)

  let succ_double = function
  | N0 -> Npos XH
  | Npos p -> Npos (XI p)

  (** val double : n -> n **)

  let double = function
  | N0 -> N0
  | Npos p -> Npos (XO p)

  (** val add : n -> n -> n **)

  let add n0 m =
    match n0 with
    | N0 -> m
    | Npos p -> (match m with
                 | N0 -> n0
                 | Npos q -> Npos (Coq_Pos.add p q))

  (** val sub : n -> n -> n **)

  let sub n0 m =
    match n0 with
    | N0 -> N0
    | Npos n' ->
      (match m with
       | N0 -> n0
       | Npos m' ->
         (match Coq_Pos.sub_mask n' m' with
          | Coq_Pos.IsPos p -> Npos p
          | _ -> N0))

  (** val mul : n -> n -> n **)

  let mul n0 m =
    match n0 with
    | N0 -> N0
    | Npos p -> (match m with
                 | N0 -> N0
                 | Npos q -> Npos (Coq_Pos.mul p q))

  (** val compare : n -> n -> comparison **)

  let compare n0 m =
    match n0 with
    | N0 -> (match m with
             | N0 -> Eq
             | Npos _ -> Lt)
    | Npos n' -> (match m with
                  | N0 -> Gt
                  | Npos m' -> Coq_Pos.compare n' m')

  (** val eqb : n -> n -> bool **)

  let eqb n0 m =
    match n0 with
    | N0 -> (match m with
             | N0 -> true
             | Npos _ -> false)
    | Npos p -> (match m with
                 | N0 -> false
                 | Npos q -> Coq_Pos.eqb p q)

  (** val leb : n -> n -> bool **)

  let leb x y =
    match compare x y with
    | Gt -> false
    | _ -> true

  (** val ltb : n -> n -> bool **)

  let ltb x y =
    match compare x y with
    | Lt -> true
    | _ -> false

  (** val min : n -> n -> n **)

  let min n0 n' =
    match compare n0 n' with
    | Gt -> n'
    | _ -> n0

  (** val div2 : n -> n **)

  let div2 = function
  | N0 -> N0
  | Npos p0 -> (match p0 with
                | XI p -> Npos p
                | XO p -> Npos p
                | XH -> N0)

  (** val pow : n -> n -> n **)

  let pow n0 = function
  | N0 -> Npos XH
  | Npos p0 -> (match n0 with
                | N0 -> N0
                | Npos q -> Npos (Coq_Pos.pow q p0))

  (** val pos_div_eucl : positive -> n -> n * n **)

  let rec pos_div_eucl a b =
    match a with
    | XI a' ->
      let (q, r) = pos_div_eucl a' b in
      let r' = succ_double r in
      if leb b r' then ((succ_double q), (sub r' b)) else ((double q), r')
    | XO a' ->
      let (q, r) = pos_div_eucl a' b in
      let r' = double r in
      if leb b r' then ((succ_double q), (sub r' b)) else ((double q), r')
    | XH ->
      (match b with
       | N0 -> (N0, (Npos XH))
       | Npos p -> (match p with
                    | XH -> ((Npos XH), N0)
                    | _ -> (N0, (Npos XH))))

  (** val div_eucl : n -> n -> n * n **)

  let div_eucl a b =
    match a with
    | N0 -> (N0, N0)
    | Npos na -> (match b with
                  | N0 -> (N0, a)
                  | Npos _ -> pos_div_eucl na b)

  (** val modulo : n -> n -> n **)

  let modulo a b =
    snd (div_eucl a b)

  (** val coq_lor : n -> n -> n **)

  let coq_lor n0 m =
    match n0 with
    | N0 -> m
    | Npos p -> (match m with
                 | N0 -> n0
                 | Npos q -> Npos (Coq_Pos.coq_lor p q))

  (** val coq_land : n -> n -> n **)

  let coq_land n0 m =
    match n0 with
    | N0 -> N0
    | Npos p -> (match m with
                 | N0 -> N0
                 | Npos q -> Coq_Pos.coq_land p q)

  (** val shiftr : n -> n -> n **)

  let shiftr a = function
  | N0 -> a
  | Npos p -> Coq_Pos.iter div2 a p

  (** val testbit : n -> n -> bool **)

  let testbit a n0 =
    match a with
    | N0 -> false
    | Npos p -> Coq_Pos.testbit p n0

  (** val to_nat : n -> nat **)

  let to_nat = function
  | N0 -> O
  | Npos p -> Coq_Pos.to_nat p

  (** val of_nat : nat -> n **)

  let of_nat = function
  | O -> N0
  | S n' -> Npos (Coq_Pos.of_succ_nat n')
 end

module Z =
 struct
  (** val double : z -> z **)

  let double = function
  | Z0 -> Z0
  | Zpos p -> Zpos (XO p)
  | Zneg p -> Zneg (XO p)

  (** val succ_double : z -> z **)

  let succ_double = function
  | Z0 -> Zpos XH
  | Zpos p -> Zpos (XI p)
  | Zneg p -> Zneg (Coq_Pos.pred_double p)

  (** val pred_double : z -> z **)

  let pred_double = function
  | Z0 -> Zneg XH
  | Zpos p -> Zpos (Coq_Pos.pred_double p)
  | Zneg p -> Zneg (XI p)

  (** val pos_sub : positive -> positive -> z **)

  let rec pos_sub x y =
    match x with
    | XI p ->
      (match y with
       | XI q -> double (pos_sub p q)
       | XO q -> succ_double (pos_sub p q)
       | XH -> Zpos (XO p))
    | XO p ->
      (match y with
       | XI q -> pred_double (pos_sub p q)
       | XO q -> double (pos_sub p q)
       | XH -> Zpos (Coq_Pos.pred_double p))
    | XH ->
      (match y with
       | XI q -> Zneg (XO q)
       | XO q -> Zneg (Coq_Pos.pred_double q)
       | XH -> Z0)

  (** val add : z -> z -> z **)

  let add x y =
    match x with
    | Z0 -> y
    | Zpos x' ->
      (match y with
       | Z0 -> x
       | Zpos y' -> Zpos (Coq_Pos.add x' y')
       | Zneg y' -> pos_sub x' y')
    | Zneg x' ->
      (match y with
       | Z0 -> x
       | Zpos y' -> pos_sub y' x'
       | Zneg y' -> Zneg (Coq_Pos.add x' y'))

  (** val opp : z -> z **)

  let opp = function
  | Z0 -> Z0
  | Zpos x0 -> Zneg x0
  | Zneg x0 -> Zpos x0

  (** val pred : z -> z **)

  let pred x =
    add x (Zneg XH)

  (** val sub : z -> z -> z **)

  let sub m n0 =
    add m (opp n0)

  (** val mul : z -> z -> z **)

  let mul x y =
    match x with
    | Z0 -> Z0
    | Zpos x' ->
      (match y with
       | Z0 -> Z0
       | Zpos y' -> Zpos (Coq_Pos.mul x' y')
       | Zneg y' -> Zneg (Coq_Pos.mul x' y'))
    | Zneg x' ->
      (match y with
       | Z0 -> Z0
       | Zpos y' -> Zneg (Coq_Pos.mul x' y')
       | Zneg y' -> Zpos (Coq_Pos.mul x' y'))

  (** val compare : z -> z -> comparison **)

  let compare x y =
    match x with
    | Z0 -> (match y with
             | Z0 -> Eq
             | Zpos _ -> Lt
             | Zneg _ -> Gt)
    | Zpos x' -> (match y with
                  | Zpos y' -> Coq_Pos.compare x' y'
                  | _ -> Gt)
    | Zneg x' ->
      (match y with
       | Zneg y' -> compOpp (Coq_Pos.compare x' y')
       | _ -> Lt)

  (** val leb : z -> z -> bool **)

  let leb x y =
    match compare x y with
    | Gt -> false
    | _ -> true

  (** val ltb : z -> z -> bool **)

  let ltb x y =
    match compare x y with
    | Lt -> true
    | _ -> false

  (** val eqb : z -> z -> bool **)

  let eqb x y =
    match x with
    | Z0 -> (match y with
             | Z0 -> true
             | _ -> false)
    | Zpos p -> (match y with
                 | Zpos q -> Coq_Pos.eqb p q
                 | _ -> false)
    | Zneg p -> (match y with
                 | Zneg q -> Coq_Pos.eqb p q
                 | _ -> false)

  (** val to_N : z -> n **)

  let to_N = function
  | Zpos p -> Npos p
  | _ -> N0

  (** val of_N : n -> z **)

  let of_N = function
  | N0 -> Z0
  | Npos p -> Zpos p

  (** val pos_div_eucl : positive -> z -> z * z **)

  let rec pos_div_eucl a b =
    match a with
    | XI a' ->
      let (q, r) = pos_div_eucl a' b in
      let r' = add (mul (Zpos (XO XH)) r) (Zpos XH) in
      if ltb r' b
      then ((mul (Zpos (XO XH)) q), r')
      else ((add (mul (Zpos (XO XH)) q) (Zpos XH)), (sub r' b))
    | XO a' ->
      let (q, r) = pos_div_eucl a' b in
      let r' = mul (Zpos (XO XH)) r in
      if ltb r' b
      then ((mul (Zpos (XO XH)) q), r')
      else ((add (mul (Zpos (XO XH)) q) (Zpos XH)), (sub r' b))
    | XH -> if leb (Zpos (XO XH)) b then (Z0, (Zpos XH)) else ((Zpos XH), Z0)

  (** val div_eucl : z -> z -> z * z **)

  let div_eucl a b =
    match a with
    | Z0 -> (Z0, Z0)
    | Zpos a' ->
      (match b with
       | Z0 -> (Z0, a)
       | Zpos _ -> pos_div_eucl a' b
       | Zneg b' ->
         let (q, r) = pos_div_eucl a' (Zpos b') in
         (match r with
          | Z0 -> ((opp q), Z0)
          | _ -> ((opp (add q (Zpos XH))), (add b r))))
    | Zneg a' ->
      (match b with
       | Z0 -> (Z0, a)
       | Zpos _ ->
         let (q, r) = pos_div_eucl a' b in
         (match r with
          | Z0 -> ((opp q), Z0)
          | _ -> ((opp (add q (Zpos XH))), (sub b r)))
       | Zneg b' -> let (q, r) = pos_div_eucl a' (Zpos b') in (q, (opp r)))

  (** val div : z -> z -> z **)

  let div a b =
    let (q, _) = div_eucl a b in q

  (** val modulo : z -> z -> z **)

  let modulo a b =
    let (_, r) = div_eucl a b in r

  (** val lnot : z -> z **)

  let lnot a =
    pred (opp a)
 end

type err =
| EEnd
| EDec
| ERun
| EOut
| EFuel

type 'a prog =
| Ret of 'a
| Throw of err
| Next of (n -> 'a prog)
| Peek of (n -> 'a prog)
| Reserve of n * 'a prog

(** val bind : 'a1 prog -> ('a1 -> 'a2 prog) -> 'a2 prog **)

let rec bind p f =
  match p with
  | Ret a -> f a
  | Throw e -> Throw e
  | Next k -> Next (fun b -> bind (k b) f)
  | Peek k -> Peek (fun b -> bind (k b) f)
  | Reserve (n0, k) -> Reserve (n0, (bind k f))

(** val run : 'a1 prog -> n list -> ('a1, err) sum * n list **)

let rec run p inp =
  match p with
  | Ret a -> ((Inl a), inp)
  | Throw e -> ((Inr e), inp)
  | Next k -> (match inp with
               | [] -> ((Inr EEnd), [])
               | b :: r -> run (k b) r)
  | Peek k ->
    (match inp with
     | [] -> ((Inr EEnd), [])
     | b :: _ -> run (k b) inp)
  | Reserve (_, k) -> run k inp

(** val frev : 'a1 list -> 'a1 list **)

let frev l =
  rev_append l []

(** val two64 : n **)

let two64 =
  Npos (XO (XO (XO (XO (XO (XO (XO (XO (XO (XO (XO (XO (XO (XO (XO (XO (XO
    (XO (XO (XO (XO (XO (XO (XO (XO (XO (XO (XO (XO (XO (XO (XO (XO (XO (XO
    (XO (XO (XO (XO (XO (XO (XO (XO (XO (XO (XO (XO (XO (XO (XO (XO (XO (XO
    (XO (XO (XO (XO (XO (XO (XO (XO (XO (XO (XO
    XH))))))))))))))))))))))))))))))))))))))))))))))))))))))))))))))))

(** val two63 : n **)

let two63 =
  Npos (XO (XO (XO (XO (XO (XO (XO (XO (XO (XO (XO (XO (XO (XO (XO (XO (XO
    (XO (XO (XO (XO (XO (XO (XO (XO (XO (XO (XO (XO (XO (XO (XO (XO (XO (XO
    (XO (XO (XO (XO (XO (XO (XO (XO (XO (XO (XO (XO (XO (XO (XO (XO (XO (XO
    (XO (XO (XO (XO (XO (XO (XO (XO (XO (XO
    XH)))))))))))))))))))))))))))))))))))))))))))))))))))))))))))))))

type major =
| MU
| MN
| MB
| MT
| MA
| MM
| MTag
| M7

(** val mcode : major -> n **)

let mcode = function
| MU -> N0
| MN -> Npos (XO (XO (XO (XO (XO XH)))))
| MB -> Npos (XO (XO (XO (XO (XO (XO XH))))))
| MT -> Npos (XO (XO (XO (XO (XO (XI XH))))))
| MA -> Npos (XO (XO (XO (XO (XO (XO (XO XH)))))))
| MM -> Npos (XO (XO (XO (XO (XO (XI (XO XH)))))))
| MTag -> Npos (XO (XO (XO (XO (XO (XO (XI XH)))))))
| M7 -> Npos (XO (XO (XO (XO (XO (XI (XI XH)))))))

(** val bUFFER_SIZE : n **)

let bUFFER_SIZE =
  Npos (XO (XO (XO (XO (XO (XO (XO (XO (XO (XO (XO XH)))))))))))

(** val t_UNSIGNED : n **)

let t_UNSIGNED =
  N0

(** val t_NEGATIVE : n **)

let t_NEGATIVE =
  Npos (XO (XO (XO (XO (XO XH)))))

(** val t_BYTES : n **)

let t_BYTES =
  Npos (XO (XO (XO (XO (XO (XO XH))))))

(** val t_TEXT : n **)

let t_TEXT =
  Npos (XO (XO (XO (XO (XO (XI XH))))))

(** val t_ARRAY : n **)

let t_ARRAY =
  Npos (XO (XO (XO (XO (XO (XO (XO XH)))))))

(** val t_MAP : n **)

let t_MAP =
  Npos (XO (XO (XO (XO (XO (XI (XO XH)))))))

(** val t_SIMPLE : n **)

let t_SIMPLE =
  Npos (XO (XO (XO (XO (XO (XI (XI XH)))))))

type enc = { buf : n list; chunks : n list list }

(** val enc_init : enc **)

let enc_init =
  { buf = []; chunks = [] }

(** val avail : enc -> n **)

let avail e =
  N.sub bUFFER_SIZE (N.of_nat (length e.buf))

(** val stream : enc -> n list **)

let stream e =
  app (concat (rev e.chunks)) e.buf

(** val flush : enc -> enc **)

let flush e =
  match e.buf with
  | [] -> e
  | _ :: _ -> { buf = []; chunks = (e.buf :: e.chunks) }

(** val byte : n -> n **)

let byte v =
  N.modulo v (Npos (XO (XO (XO (XO (XO (XO (XO (XO XH)))))))))

(** val write_int : n -> n -> n -> n list **)

let write_int av value major0 =
  if N.leb value (Npos (XI (XI (XI (XO XH)))))
  then if N.leb (Npos XH) av then (N.coq_lor major0 value) :: [] else []
  else if N.leb value (Npos (XI (XI (XI (XI (XI (XI (XI XH))))))))
       then if N.leb (Npos (XO XH)) av
            then (N.coq_lor major0 (Npos (XO (XO (XO (XI XH)))))) :: (
                   (byte value) :: [])
            else []
       else if N.leb value (Npos (XI (XI (XI (XI (XI (XI (XI (XI (XI (XI (XI
                 (XI (XI (XI (XI XH))))))))))))))))
            then if N.leb (Npos (XI XH)) av
                 then (N.coq_lor major0 (Npos (XI (XO (XO (XI XH)))))) :: (
                        (byte (N.shiftr value (Npos (XO (XO (XO XH)))))) :: (
                        (byte value) :: []))
                 else []
            else if N.leb value (Npos (XI (XI (XI (XI (XI (XI (XI (XI (XI (XI
                      (XI (XI (XI (XI (XI (XI (XI (XI (XI (XI (XI (XI (XI (XI
                      (XI (XI (XI (XI (XI (XI (XI
                      XH))))))))))))))))))))))))))))))))
                 then if N.leb (Npos (XI (XO XH))) av
                      then (N.coq_lor major0 (Npos (XO (XI (XO (XI XH)))))) :: (
                             (byte
                               (N.shiftr value (Npos (XO (XO (XO (XI XH))))))) :: (
                             (byte
                               (N.shiftr value (Npos (XO (XO (XO (XO XH))))))) :: (
                             (byte (N.shiftr value (Npos (XO (XO (XO XH)))))) :: (
                             (byte value) :: []))))
                      else []
                 else if N.leb (Npos (XI (XO (XO XH)))) av
                      then (N.coq_lor major0 (Npos (XI (XI (XO (XI XH)))))) :: (
                             (byte
                               (N.shiftr value (Npos (XO (XO (XO (XI (XI
                                 XH)))))))) :: ((byte
                                                  (N.shiftr value (Npos (XO
                                                    (XO (XO (XO (XI XH)))))))) :: (
                             (byte
                               (N.shiftr value (Npos (XO (XO (XO (XI (XO
                                 XH)))))))) :: ((byte
                                                  (N.shiftr value (Npos (XO
                                                    (XO (XO (XO (XO XH)))))))) :: (
                             (byte
                               (N.shiftr value (Npos (XO (XO (XO (XI XH))))))) :: (
                             (byte
                               (N.shiftr value (Npos (XO (XO (XO (XO XH))))))) :: (
                             (byte (N.shiftr value (Npos (XO (XO (XO XH)))))) :: (
                             (byte value) :: []))))))))
                      else []

(** val put : enc -> n list -> enc **)

let put e bs =
  { buf = (app e.buf bs); chunks = e.chunks }

(** val op_int : n -> n -> n -> enc -> enc * n **)

let op_int need major0 v e =
  let e1 = if N.ltb (avail e) need then flush e else e in
  let bs = write_int (avail e1) v major0 in
  ((put e1 bs), (N.of_nat (length bs)))

(** val op_fixed : n -> enc -> enc * n **)

let op_fixed b e =
  let e1 = if N.ltb (avail e) (Npos XH) then flush e else e in
  if N.ltb (avail e1) (Npos XH)
  then (e1, N0)
  else ((put e1 (b :: [])), (Npos XH))

(** val write_array_start : n -> enc -> enc * n **)

let write_array_start n0 =
  op_int (Npos (XI (XO (XO XH)))) t_ARRAY n0

(** val write_map_start : n -> enc -> enc * n **)

let write_map_start n0 =
  op_int (Npos (XI (XO (XO XH)))) t_MAP n0

(** val write_indef_array_start : enc -> enc * n **)

let write_indef_array_start =
  op_fixed (N.coq_lor t_ARRAY (Npos (XI (XI (XI (XI XH))))))

(** val write_indef_map_start : enc -> enc * n **)

let write_indef_map_start =
  op_fixed (N.coq_lor t_MAP (Npos (XI (XI (XI (XI XH))))))

(** val write_break : enc -> enc * n **)

let write_break =
  op_fixed (N.coq_lor t_SIMPLE (Npos (XI (XI (XI (XI XH))))))

(** val write_bool : bool -> enc -> enc * n **)

let write_bool b =
  op_int (Npos XH) t_SIMPLE
    (if b then Npos (XI (XO (XI (XO XH)))) else Npos (XO (XO (XI (XO XH)))))

(** val write_u8 : n -> enc -> enc * n **)

let write_u8 v =
  op_int (Npos (XO XH)) t_UNSIGNED v

(** val write_u16 : n -> enc -> enc * n **)

let write_u16 v =
  op_int (Npos (XI XH)) t_UNSIGNED v

(** val write_u32 : n -> enc -> enc * n **)

let write_u32 v =
  op_int (Npos (XI (XO XH))) t_UNSIGNED v

(** val write_u64 : n -> enc -> enc * n **)

let write_u64 v =
  op_int (Npos (XI (XO (XO XH)))) t_UNSIGNED v

(** val op_sint : n -> z -> enc -> enc * n **)

let op_sint need z0 e =
  if Z.ltb z0 Z0
  then op_int need t_NEGATIVE (Z.to_N (Z.lnot z0)) e
  else op_int need t_UNSIGNED (Z.to_N z0) e

(** val write_i8 : z -> enc -> enc * n **)

let write_i8 =
  op_sint (Npos (XO XH))

(** val write_i16 : z -> enc -> enc * n **)

let write_i16 =
  op_sint (Npos (XI XH))

(** val write_i32 : z -> enc -> enc * n **)

let write_i32 =
  op_sint (Npos (XI (XO XH)))

(** val write_i64 : z -> enc -> enc * n **)

let write_i64 =
  op_sint (Npos (XI (XO (XO XH))))

(** val write_string : nat -> enc -> n list -> enc **)

let rec write_string fuel e bs =
  match fuel with
  | O -> e
  | S f ->
    let av = N.to_nat (avail e) in
    if N.leb (N.of_nat (length bs)) (avail e)
    then put e bs
    else write_string f (flush (put e (firstn av bs))) (skipn av bs)

(** val op_string : n -> n list -> enc -> enc * n **)

let op_string major0 bs e =
  let e1 = if N.ltb (avail e) (Npos (XI (XO (XO XH)))) then flush e else e in
  let hd = write_int (avail e1) (N.of_nat (length bs)) major0 in
  let e2 = put e1 hd in
  ((write_string (S (S (length bs))) e2 bs),
  (N.add (N.of_nat (length hd)) (N.of_nat (length bs))))

(** val write_bytestring : n list -> enc -> enc * n **)

let write_bytestring =
  op_string t_BYTES

(** val write_textstring : n list -> enc -> enc * n **)

let write_textstring =
  op_string t_TEXT

type eop =
| OArr of n
| OIndefArr
| OMap of n
| OIndefMap
| OBytes of n list
| OText of n list
| OBreak
| OBool of bool
| OU8 of n
| OU16 of n
| OU32 of n
| OU64 of n
| OI8 of z
| OI16 of z
| OI32 of z
| OI64 of z

(** val estep : enc -> eop -> enc * n **)

let estep e = function
| OArr n0 -> write_array_start n0 e
| OIndefArr -> write_indef_array_start e
| OMap n0 -> write_map_start n0 e
| OIndefMap -> write_indef_map_start e
| OBytes bs -> write_bytestring bs e
| OText bs -> write_textstring bs e
| OBreak -> write_break e
| OBool b -> write_bool b e
| OU8 v -> write_u8 v e
| OU16 v -> write_u16 v e
| OU32 v -> write_u32 v e
| OU64 v -> write_u64 v e
| OI8 z0 -> write_i8 z0 e
| OI16 z0 -> write_i16 z0 e
| OI32 z0 -> write_i32 z0 e
| OI64 z0 -> write_i64 z0 e

(** val eruns : enc -> eop list -> enc * n list **)

let rec eruns e = function
| [] -> (e, [])
| o :: os ->
  let (e1, r) = estep e o in let (e2, rs) = eruns e1 os in (e2, (r :: rs))

(** val m64 : z **)

let m64 =
  Zpos (XO (XO (XO (XO (XO (XO (XO (XO (XO (XO (XO (XO (XO (XO (XO (XO (XO
    (XO (XO (XO (XO (XO (XO (XO (XO (XO (XO (XO (XO (XO (XO (XO (XO (XO (XO
    (XO (XO (XO (XO (XO (XO (XO (XO (XO (XO (XO (XO (XO (XO (XO (XO (XO (XO
    (XO (XO (XO (XO (XO (XO (XO (XO (XO (XO (XO
    XH))))))))))))))))))))))))))))))))))))))))))))))))))))))))))))))))

(** val m63 : z **)

let m63 =
  Zpos (XO (XO (XO (XO (XO (XO (XO (XO (XO (XO (XO (XO (XO (XO (XO (XO (XO
    (XO (XO (XO (XO (XO (XO (XO (XO (XO (XO (XO (XO (XO (XO (XO (XO (XO (XO
    (XO (XO (XO (XO (XO (XO (XO (XO (XO (XO (XO (XO (XO (XO (XO (XO (XO (XO
    (XO (XO (XO (XO (XO (XO (XO (XO (XO (XO
    XH)))))))))))))))))))))))))))))))))))))))))))))))))))))))))))))))

(** val i64MAX : z **)

let i64MAX =
  Zpos (XI (XI (XI (XI (XI (XI (XI (XI (XI (XI (XI (XI (XI (XI (XI (XI (XI
    (XI (XI (XI (XI (XI (XI (XI (XI (XI (XI (XI (XI (XI (XI (XI (XI (XI (XI
    (XI (XI (XI (XI (XI (XI (XI (XI (XI (XI (XI (XI (XI (XI (XI (XI (XI (XI
    (XI (XI (XI (XI (XI (XI (XI (XI (XI
    XH))))))))))))))))))))))))))))))))))))))))))))))))))))))))))))))

(** val to_i64 : z -> z **)

let to_i64 z0 =
  let w = Z.modulo z0 m64 in if Z.ltb w m63 then w else Z.sub w m64

(** val in_i64 : z -> bool **)

let in_i64 z0 =
  (&&) (Z.leb (Z.opp m63) z0) (Z.ltb z0 m63)

type 'a tres =
| TOk of 'a
| TThrow
| TUB

type ts = { secs : z; ticks : z }

(** val total_ticks : ts -> z -> z **)

let total_ticks t tps =
  to_i64 (Z.add (Z.mul t.secs tps) t.ticks)

(** val get_time_offset : ts -> ts -> z -> z tres **)

let get_time_offset t ref tps =
  if Z.eqb tps Z0
  then TThrow
  else let d = Z.sub (total_ticks t tps) (total_ticks ref tps) in
       if in_i64 d then TOk d else TUB

(** val add_time_offset : ts -> z -> z -> ts tres **)

let add_time_offset t offset tps =
  if Z.eqb tps Z0
  then TThrow
  else let tk = total_ticks t tps in
       if (||)
            ((||) (Z.ltb tk Z0)
              ((&&) (Z.ltb offset Z0) (Z.ltb (Z.add tk offset) Z0)))
            ((&&) (Z.ltb Z0 offset) (Z.ltb (Z.sub i64MAX offset) tk))
       then TThrow
       else let n0 = Z.add tk offset in
            TOk { secs = (Z.div n0 tps); ticks = (Z.modulo n0 tps) }

(** val ts_lt : ts -> ts -> bool **)

let ts_lt a b =
  if Z.ltb a.secs b.secs
  then true
  else (&&) (Z.eqb a.secs b.secs) (Z.ltb a.ticks b.ticks)

(** val ts_le : ts -> ts -> bool **)

let ts_le a b =
  if Z.ltb a.secs b.secs
  then true
  else (&&) (Z.eqb a.secs b.secs) (Z.leb a.ticks b.ticks)

type btime = { earliest : ts; nitems : nat; stored : ts list }

(** val bt_init : btime **)

let bt_init =
  { earliest = { secs = Z0; ticks = Z0 }; nitems = O; stored = [] }

type tev = { ev_ts : ts option; ev_store_time : bool; ev_filled : bool }

(** val bt_add : btime -> tev -> btime **)

let bt_add b e =
  let ear =
    match e.ev_ts with
    | Some t ->
      if (||) (Nat.eqb b.nitems O) (ts_lt t b.earliest) then t else b.earliest
    | None -> b.earliest
  in
  let pushed =
    (||) e.ev_filled
      (match e.ev_ts with
       | Some _ -> e.ev_store_time
       | None -> false)
  in
  { earliest = ear; nitems = (if pushed then S b.nitems else b.nitems);
  stored =
  (match e.ev_ts with
   | Some t -> if e.ev_store_time then t :: b.stored else b.stored
   | None -> b.stored) }

(** val dEC_BUFFER_SIZE : n **)

let dEC_BUFFER_SIZE =
  Npos (XI (XI (XI (XI (XI (XI (XI (XI (XI (XI (XI (XI (XI (XI (XI
    XH)))))))))))))))

(** val major_of : n -> major **)

let major_of b =
  let t = N.coq_land b (Npos (XO (XO (XO (XO (XO (XI (XI XH)))))))) in
  if N.eqb t N0
  then MU
  else if N.eqb t (Npos (XO (XO (XO (XO (XO XH))))))
       then MN
       else if N.eqb t (Npos (XO (XO (XO (XO (XO (XO XH)))))))
            then MB
            else if N.eqb t (Npos (XO (XO (XO (XO (XO (XI XH)))))))
                 then MT
                 else if N.eqb t (Npos (XO (XO (XO (XO (XO (XO (XO XH))))))))
                      then MA
                      else if N.eqb t (Npos (XO (XO (XO (XO (XO (XI (XO
                                XH))))))))
                           then MM
                           else if N.eqb t (Npos (XO (XO (XO (XO (XO (XO (XI
                                     XH))))))))
                                then MTag
                                else M7

(** val major_eqb : major -> major -> bool **)

let major_eqb a b =
  N.eqb (mcode a) (mcode b)

(** val read_type : (major * n) prog **)

let read_type =
  Next (fun b -> Ret ((major_of b),
    (N.coq_land b (Npos (XI (XI (XI (XI XH))))))))

(** val peek_type : major option prog **)

let peek_type =
  Peek (fun b -> Ret
    (if N.eqb b (Npos (XI (XI (XI (XI (XI (XI (XI XH))))))))
     then None
     else Some (major_of b)))

(** val read_be : nat -> n -> n prog **)

let rec read_be k acc =
  match k with
  | O -> Ret acc
  | S k' ->
    Next (fun b ->
      read_be k'
        (N.add (N.mul acc (Npos (XO (XO (XO (XO (XO (XO (XO (XO XH))))))))))
          b))

(** val read_int : n -> n prog **)

let read_int ai =
  if N.leb ai (Npos (XI (XI (XI (XO XH)))))
  then Ret ai
  else if N.eqb ai (Npos (XO (XO (XO (XI XH)))))
       then read_be (S O) N0
       else if N.eqb ai (Npos (XI (XO (XO (XI XH)))))
            then read_be (S (S O)) N0
            else if N.eqb ai (Npos (XO (XI (XO (XI XH)))))
                 then read_be (S (S (S (S O)))) N0
                 else if N.eqb ai (Npos (XI (XI (XO (XI XH)))))
                      then read_be (S (S (S (S (S (S (S (S O)))))))) N0
                      else Ret N0

(** val to_i0 : n -> z **)

let to_i0 u =
  if N.ltb u two63 then Z.of_N u else Z.sub (Z.of_N u) (Z.of_N two64)

(** val neg_of : n -> z **)

let neg_of v =
  to_i0 (N.modulo (N.sub (N.sub two64 (Npos XH)) v) two64)

(** val bad_ai : n -> bool **)

let bad_ai ai =
  (&&) (N.leb (Npos (XO (XO (XI (XI XH))))) ai)
    (N.leb ai (Npos (XO (XI (XI (XI XH))))))

(** val read_unsigned : n prog **)

let read_unsigned =
  bind read_type (fun ta ->
    match fst ta with
    | MU ->
      if N.leb (Npos (XO (XO (XI (XI XH))))) (snd ta)
      then Throw EDec
      else read_int (snd ta)
    | _ -> Throw EDec)

(** val read_negative : z prog **)

let read_negative =
  bind read_type (fun ta ->
    match fst ta with
    | MN ->
      if N.leb (Npos (XO (XO (XI (XI XH))))) (snd ta)
      then Throw EDec
      else bind (read_int (snd ta)) (fun v -> Ret (neg_of v))
    | _ -> Throw EDec)

(** val read_integer : z prog **)

let read_integer =
  bind peek_type (fun pk ->
    match pk with
    | Some m ->
      (match m with
       | MU -> bind read_unsigned (fun v -> Ret (to_i0 v))
       | MN -> read_negative
       | _ -> Throw EDec)
    | None -> Throw EDec)

(** val read_bool : bool prog **)

let read_bool =
  bind read_type (fun ta ->
    match fst ta with
    | MU ->
      if N.leb (Npos (XO (XO (XI (XI XH))))) (snd ta)
      then Throw EDec
      else bind (read_int (snd ta)) (fun v -> Ret (negb (N.eqb v N0)))
    | M7 ->
      if (||) (N.eqb (snd ta) (Npos (XO (XO (XI (XO XH))))))
           (N.eqb (snd ta) (Npos (XI (XO (XI (XO XH))))))
      then Ret (N.eqb (snd ta) (Npos (XI (XO (XI (XO XH))))))
      else Throw EDec
    | _ -> Throw EDec)

(** val read_break : unit prog **)

let read_break =
  bind read_type (fun ta ->
    match fst ta with
    | M7 ->
      if N.eqb (snd ta) (Npos (XI (XI (XI (XI XH)))))
      then Ret ()
      else Throw EDec
    | _ -> Throw EDec)

(** val read_bytes : nat -> n -> n list -> n list prog **)

let rec read_bytes g n0 racc =
  if N.eqb n0 N0
  then Ret racc
  else (match g with
        | O -> Throw EFuel
        | S g' ->
          Next (fun b -> read_bytes g' (N.sub n0 (Npos XH)) (b :: racc)))

(** val reserve_req : n -> n **)

let reserve_req n0 =
  N.min n0 dEC_BUFFER_SIZE

(** val read_chunks : major -> nat -> nat -> n list -> n list prog **)

let rec read_chunks m g fuel racc =
  match fuel with
  | O -> Throw EFuel
  | S fuel' ->
    bind peek_type (fun pk ->
      match pk with
      | Some _ ->
        bind read_type (fun ta ->
          if negb (major_eqb (fst ta) m)
          then Throw EDec
          else if N.eqb (snd ta) (Npos (XI (XI (XI (XI XH)))))
               then Throw EDec
               else bind (read_int (snd ta)) (fun len -> Reserve
                      ((reserve_req len),
                      (bind (read_bytes g len racc) (fun racc' ->
                        read_chunks m g fuel' racc')))))
      | None -> bind read_break (fun _ -> Ret racc))

(** val read_string : major -> nat -> n -> bool -> n list prog **)

let read_string m g length0 = function
| true -> bind (read_chunks m g g []) (fun racc -> Ret (frev racc))
| false ->
  Reserve ((reserve_req length0),
    (bind (read_bytes g length0 []) (fun racc -> Ret (frev racc))))

(** val read_xstring : major -> nat -> n list prog **)

let read_xstring m g =
  bind read_type (fun ta ->
    if negb (major_eqb (fst ta) m)
    then Throw EDec
    else if bad_ai (snd ta)
         then Throw EDec
         else bind (read_int (snd ta)) (fun len ->
                read_string m g len
                  (N.eqb (snd ta) (Npos (XI (XI (XI (XI XH))))))))

(** val read_bytestring : nat -> n list prog **)

let read_bytestring =
  read_xstring MB

(** val read_textstring : nat -> n list prog **)

let read_textstring =
  read_xstring MT

(** val read_xstart : major -> (n * bool) prog **)

let read_xstart m =
  bind read_type (fun ta ->
    if negb (major_eqb (fst ta) m)
    then Throw EDec
    else if bad_ai (snd ta)
         then Throw EDec
         else if N.eqb (snd ta) (Npos (XI (XI (XI (XI XH)))))
              then Ret (N0, true)
              else bind (read_int (snd ta)) (fun n0 -> Ret (n0, false)))

(** val read_array_start : (n * bool) prog **)

let read_array_start =
  read_xstart MA

(** val read_map_start : (n * bool) prog **)

let read_map_start =
  read_xstart MM

(** val loop_n : unit prog -> nat -> n -> unit prog **)

let rec loop_n sk g n0 =
  if N.eqb n0 N0
  then Ret ()
  else (match g with
        | O -> Throw EFuel
        | S g' -> bind sk (fun _ -> loop_n sk g' (N.sub n0 (Npos XH))))

(** val loop_indef : unit prog -> nat -> unit prog **)

let rec loop_indef sk = function
| O -> Throw EFuel
| S g' ->
  bind peek_type (fun pk ->
    match pk with
    | Some _ -> bind sk (fun _ -> loop_indef sk g')
    | None -> Next (fun _ -> Ret ()))

(** val skip : nat -> nat -> unit prog **)

let rec skip g = function
| O -> Throw EFuel
| S f' ->
  bind read_type (fun ta ->
    let ai = snd ta in
    (match fst ta with
     | MU ->
       if N.leb (Npos (XO (XO (XI (XI XH))))) ai
       then Throw EDec
       else bind (read_int ai) (fun _ -> Ret ())
     | MN ->
       if N.leb (Npos (XO (XO (XI (XI XH))))) ai
       then Throw EDec
       else bind (read_int ai) (fun _ -> Ret ())
     | MA ->
       if bad_ai ai
       then Throw EDec
       else if N.eqb ai (Npos (XI (XI (XI (XI XH)))))
            then loop_indef (skip g f') g
            else bind (read_int ai) (fun n0 -> loop_n (skip g f') g n0)
     | MM ->
       if bad_ai ai
       then Throw EDec
       else if N.eqb ai (Npos (XI (XI (XI (XI XH)))))
            then loop_indef (skip g f') g
            else bind (read_int ai) (fun n0 ->
                   loop_n (skip g f') g (N.mul (Npos (XO XH)) n0))
     | MTag ->
       if N.leb (Npos (XO (XO (XI (XI XH))))) ai
       then Throw EDec
       else bind (read_int ai) (fun _ -> skip g f')
     | M7 ->
       if bad_ai ai then Throw EDec else bind (read_int ai) (fun _ -> Ret ())
     | _ ->
       if bad_ai ai
       then Throw EDec
       else bind (read_int ai) (fun n0 ->
              bind
                (read_string (fst ta) g n0
                  (N.eqb ai (Npos (XI (XI (XI (XI XH))))))) (fun _ -> Ret ()))))

(** val skip_item : nat -> unit prog **)

let skip_item g =
  skip g g

type phys = { win : n list; rest : n list; eof : bool }

(** val ended : phys -> phys **)

let ended s =
  { win = []; rest = s.rest; eof = true }

(** val refill : n -> phys -> phys option **)

let refill b s =
  if s.eof
  then None
  else let chunk = firstn (N.to_nat b) s.rest in
       (match chunk with
        | [] -> None
        | _ :: _ ->
          Some { win = chunk; rest = (skipn (N.to_nat b) s.rest); eof =
            (N.ltb (N.of_nat (length chunk)) b) })

(** val ensure : n -> phys -> phys option **)

let ensure b s =
  match s.win with
  | [] -> refill b s
  | _ :: _ -> Some s

(** val run_phys : n -> 'a1 prog -> phys -> ('a1, err) sum * phys **)

let rec run_phys b p s =
  match p with
  | Ret a -> ((Inl a), s)
  | Throw e -> ((Inr e), s)
  | Next k ->
    (match ensure b s with
     | Some s' ->
       (match s'.win with
        | [] -> ((Inr EEnd), (ended s'))
        | b0 :: w ->
          run_phys b (k b0) { win = w; rest = s'.rest; eof = s'.eof })
     | None -> ((Inr EEnd), (ended s)))
  | Peek k ->
    (match ensure b s with
     | Some s' ->
       (match s'.win with
        | [] -> ((Inr EEnd), (ended s'))
        | b0 :: _ -> run_phys b (k b0) s')
     | None -> ((Inr EEnd), (ended s)))
  | Reserve (_, k) -> run_phys b k s

(** val logical : phys -> n list **)

let logical s =
  app s.win s.rest

(** val phys_init : n list -> phys **)

let phys_init input =
  { win = []; rest = input; eof = false }

type presence =
| Mand
| MandNE
| Always
| Opt
| NonEmpty

type ty =
| TU of n
| TI
| TBool
| TText
| TBytes
| TTime
| TArr of ty
| TIdx
| TMap of bool * fields
and fields =
| FNil
| FCons of z * presence * ty * fields

type val0 =
| VN of n
| VZ of z
| VB of bool
| VS of n list
| VL of val0 list
| VR of val0 option list

(** val op_uint : n -> n -> eop **)

let op_uint bits n0 =
  if N.eqb bits (Npos (XO (XO (XO XH))))
  then OU8 n0
  else if N.eqb bits (Npos (XO (XO (XO (XO XH)))))
       then OU16 n0
       else if N.eqb bits (Npos (XO (XO (XO (XO (XO XH))))))
            then OU32 n0
            else OU64 n0

(** val op_key : bool -> z -> eop **)

let op_key signed_keys k =
  if signed_keys then OI8 k else OU8 (Z.to_N k)

(** val present : presence -> val0 option -> bool **)

let present p = function
| Some x ->
  (match p with
   | NonEmpty ->
     (match x with
      | VL xs -> (match xs with
                  | [] -> false
                  | _ :: _ -> true)
      | _ -> true)
   | _ -> true)
| None -> false

(** val count_present : fields -> val0 option list -> n **)

let rec count_present fs vs =
  match fs with
  | FNil -> N0
  | FCons (_, p, _, r) ->
    (match vs with
     | [] -> N0
     | v :: vs' ->
       N.add (if present p v then Npos XH else N0) (count_present r vs'))

(** val write_val : ty -> val0 -> eop list **)

let rec write_val t v =
  match t with
  | TU bits -> (match v with
                | VN n0 -> (op_uint bits n0) :: []
                | _ -> [])
  | TI -> (match v with
           | VZ z0 -> (OI64 z0) :: []
           | _ -> [])
  | TBool -> (match v with
              | VB b -> (OBool b) :: []
              | _ -> [])
  | TText -> (match v with
              | VS bs -> (OText bs) :: []
              | _ -> [])
  | TBytes -> (match v with
               | VS bs -> (OBytes bs) :: []
               | _ -> [])
  | TTime ->
    (match v with
     | VL xs ->
       (match xs with
        | [] -> []
        | v0 :: l ->
          (match v0 with
           | VN s ->
             (match l with
              | [] -> []
              | v1 :: l0 ->
                (match v1 with
                 | VN k ->
                   (match l0 with
                    | [] ->
                      (OArr (Npos (XO XH))) :: ((OU64 s) :: ((OU64 k) :: []))
                    | _ :: _ -> [])
                 | _ -> []))
           | _ -> []))
     | _ -> [])
  | TArr e ->
    (match v with
     | VL xs -> (OArr (N.of_nat (length xs))) :: (flat_map (write_val e) xs)
     | _ -> [])
  | TIdx ->
    (match v with
     | VL xs ->
       (OArr
         (N.of_nat (length xs))) :: (flat_map (fun x ->
                                      match x with
                                      | VN n0 -> (OU32 n0) :: []
                                      | _ -> []) xs)
     | _ -> [])
  | TMap (sk, fs) ->
    (match v with
     | VR vs -> (OMap (count_present fs vs)) :: (write_fields sk fs vs)
     | _ -> [])

(** val write_fields : bool -> fields -> val0 option list -> eop list **)

and write_fields sk fs vs =
  match fs with
  | FNil -> []
  | FCons (k, p, t, r) ->
    (match vs with
     | [] -> []
     | v :: vs' ->
       app
         (match v with
          | Some x ->
            if present p v then (op_key sk k) :: (write_val t x) else []
          | None -> []) (write_fields sk r vs'))

type has_ty = __

(** val read_time : val0 prog **)

let read_time =
  bind read_array_start (fun st ->
    let (n0, indef) = st in
    if indef
    then bind peek_type (fun pk ->
           match pk with
           | Some _ ->
             bind read_unsigned (fun s ->
               bind peek_type (fun pk0 ->
                 match pk0 with
                 | Some _ ->
                   bind read_unsigned (fun k ->
                     bind peek_type (fun pk1 ->
                       match pk1 with
                       | Some _ -> Throw EDec
                       | None ->
                         bind read_break (fun _ -> Ret (VL ((VN s) :: ((VN
                           k) :: []))))))
                 | None -> bind read_break (fun _ -> Throw EDec)))
           | None -> bind read_break (fun _ -> Throw EDec))
    else if N.eqb n0 N0
         then Throw EDec
         else bind read_unsigned (fun s ->
                if N.eqb n0 (Npos XH)
                then Throw EDec
                else bind read_unsigned (fun k ->
                       if N.eqb n0 (Npos (XO XH))
                       then Ret (VL ((VN s) :: ((VN k) :: [])))
                       else Throw EDec)))

(** val arr_loop :
    val0 prog -> nat -> n -> bool -> val0 list -> val0 list prog **)

let rec arr_loop rd g n0 indef racc =
  if (&&) (N.eqb n0 N0) (negb indef)
  then Ret (frev racc)
  else (match g with
        | O -> Throw EFuel
        | S g' ->
          if indef
          then bind peek_type (fun pk ->
                 match pk with
                 | Some _ ->
                   bind rd (fun v ->
                     arr_loop rd g' (N.sub n0 (Npos XH)) indef (v :: racc))
                 | None -> bind read_break (fun _ -> Ret (frev racc)))
          else bind rd (fun v ->
                 arr_loop rd g' (N.sub n0 (Npos XH)) indef (v :: racc)))

(** val read_arr : val0 prog -> nat -> val0 prog **)

let read_arr rd g =
  bind read_array_start (fun st ->
    bind (arr_loop rd g (fst st) (snd st) []) (fun xs -> Ret (VL xs)))

(** val read_idx : nat -> val0 prog **)

let read_idx g =
  bind read_array_start (fun st -> Reserve ((reserve_req (fst st)),
    (bind
      (arr_loop
        (bind read_unsigned (fun v -> Ret (VN
          (N.modulo v
            (N.pow (Npos (XO XH)) (Npos (XO (XO (XO (XO (XO XH))))))))))) g
        (fst st) (snd st) []) (fun xs -> Ret (VL xs)))))

(** val set_nth : nat -> 'a1 -> 'a1 list -> 'a1 list **)

let rec set_nth i x l =
  match i with
  | O -> (match l with
          | [] -> []
          | _ :: l' -> x :: l')
  | S i' -> (match l with
             | [] -> []
             | a :: l' -> a :: (set_nth i' x l'))

(** val init_rec : fields -> val0 option list **)

let rec init_rec = function
| FNil -> []
| FCons (_, p, _, r) ->
  (match p with
   | NonEmpty -> Some (VL [])
   | _ -> None) :: (init_rec r)

(** val mand_ok : fields -> val0 option list -> bool **)

let rec mand_ok fs vs =
  match fs with
  | FNil -> true
  | FCons (_, p, _, r) ->
    (match vs with
     | [] -> true
     | v :: vs' ->
       (&&)
         (match p with
          | Mand -> (match v with
                     | Some _ -> true
                     | None -> false)
          | MandNE ->
            (match v with
             | Some v0 ->
               (match v0 with
                | VL xs -> (match xs with
                            | [] -> false
                            | _ :: _ -> true)
                | _ -> true)
             | None -> false)
          | _ -> true) (mand_ok r vs'))

(** val zero_of : ty -> val0 **)

let zero_of = function
| TU _ -> VN N0
| TI -> VZ Z0
| TBool -> VB false
| TText -> VS []
| TBytes -> VS []
| TTime -> VL ((VN N0) :: ((VN N0) :: []))
| TMap (_, _) -> VR []
| _ -> VL []

(** val fill_always : fields -> val0 option list -> val0 option list **)

let rec fill_always fs vs =
  match fs with
  | FNil -> vs
  | FCons (_, p, t, r) ->
    (match vs with
     | [] -> vs
     | v :: vs' ->
       (match p with
        | Always -> (match v with
                     | Some _ -> v
                     | None -> Some (zero_of t))
        | _ -> v) :: (fill_always r vs'))

(** val map_loop :
    (z -> (nat * val0 prog) option) -> unit prog -> nat -> n -> bool -> val0
    option list -> val0 option list prog **)

let rec map_loop rdk sk g n0 indef rec0 =
  if (&&) (N.eqb n0 N0) (negb indef)
  then Ret rec0
  else (match g with
        | O -> Throw EFuel
        | S g' ->
          let body =
            bind read_integer (fun key ->
              match rdk key with
              | Some p ->
                let (i, rd) = p in
                bind rd (fun v ->
                  map_loop rdk sk g' (N.sub n0 (Npos XH)) indef
                    (set_nth i (Some v) rec0))
              | None ->
                bind sk (fun _ ->
                  map_loop rdk sk g' (N.sub n0 (Npos XH)) indef rec0))
          in
          if indef
          then bind peek_type (fun pk ->
                 match pk with
                 | Some _ -> body
                 | None -> bind read_break (fun _ -> Ret rec0))
          else body)

(** val read_val : nat -> ty -> val0 prog **)

let rec read_val g = function
| TU bits ->
  bind read_unsigned (fun v -> Ret (VN
    (N.modulo v (N.pow (Npos (XO XH)) bits))))
| TI -> bind read_integer (fun z0 -> Ret (VZ z0))
| TBool -> bind read_bool (fun b -> Ret (VB b))
| TText -> bind (read_textstring g) (fun s -> Ret (VS s))
| TBytes -> bind (read_bytestring g) (fun s -> Ret (VS s))
| TTime -> read_time
| TArr e -> read_arr (read_val g e) g
| TIdx -> read_idx g
| TMap (_, fs) ->
  bind read_map_start (fun st ->
    bind
      (map_loop (find_field g fs O) (skip_item g) g (fst st) (snd st)
        (init_rec fs)) (fun rec0 ->
      if mand_ok fs rec0 then Ret (VR (fill_always fs rec0)) else Throw EDec))

(** val find_field : nat -> fields -> nat -> z -> (nat * val0 prog) option **)

and find_field g fs i x =
  match fs with
  | FNil -> None
  | FCons (k, _, t, r) ->
    if Z.eqb x k then Some (i, (read_val g t)) else find_field g r (S i) x

(** val u8 : ty **)

let u8 =
  TU (Npos (XO (XO (XO XH))))

(** val u16 : ty **)

let u16 =
  TU (Npos (XO (XO (XO (XO XH)))))

(** val u32 : ty **)

let u32 =
  TU (Npos (XO (XO (XO (XO (XO XH))))))

(** val u64 : ty **)

let u64 =
  TU (Npos (XO (XO (XO (XO (XO (XO XH)))))))

(** val mk_fields : ((z * presence) * ty) list -> fields **)

let rec mk_fields = function
| [] -> FNil
| p0 :: r ->
  let (p1, t) = p0 in let (k, p) = p1 in FCons (k, p, t, (mk_fields r))

(** val s_ : ((z * presence) * ty) list -> ty **)

let s_ l =
  TMap (false, (mk_fields l))

(** val storageHints : ty **)

let storageHints =
  s_ (((Z0, Mand), u32) :: ((((Zpos XH), Mand), u32) :: ((((Zpos (XO XH)),
    Mand), u8) :: ((((Zpos (XI XH)), Mand), u8) :: []))))

(** val storageParameters : ty **)

let storageParameters =
  s_ (((Z0, Mand), u64) :: ((((Zpos XH), Mand), u64) :: ((((Zpos (XO XH)),
    Mand), storageHints) :: ((((Zpos (XI XH)), Mand), (TArr u8)) :: ((((Zpos
    (XO (XO XH))), Mand), (TArr u16)) :: ((((Zpos (XI (XO XH))), Opt),
    u8) :: ((((Zpos (XO (XI XH))), Opt), u8) :: ((((Zpos (XI (XI XH))), Opt),
    u8) :: ((((Zpos (XO (XO (XO XH)))), Opt), u8) :: ((((Zpos (XI (XO (XO
    XH)))), Opt), u8) :: ((((Zpos (XO (XI (XO XH)))), Opt),
    TText) :: ((((Zpos (XI (XI (XO XH)))), Opt), TText) :: []))))))))))))

(** val collectionParameters : ty **)

let collectionParameters =
  s_ (((Z0, Opt), u64) :: ((((Zpos XH), Opt), u64) :: ((((Zpos (XO XH)),
    Opt), u64) :: ((((Zpos (XI XH)), Opt), TBool) :: ((((Zpos (XO (XO XH))),
    NonEmpty), (TArr TText)) :: ((((Zpos (XI (XO XH))), NonEmpty), (TArr
    TBytes)) :: ((((Zpos (XO (XI XH))), NonEmpty), (TArr u16)) :: ((((Zpos
    (XI (XI XH))), Opt), TText) :: ((((Zpos (XO (XO (XO XH)))), Opt),
    TText) :: ((((Zpos (XI (XO (XO XH)))), Opt), TText) :: []))))))))))

(** val blockParameters : ty **)

let blockParameters =
  s_ (((Z0, Mand), storageParameters) :: ((((Zpos XH), Opt),
    collectionParameters) :: []))

(** val filePreamble : ty **)

let filePreamble =
  s_ (((Z0, Mand), u8) :: ((((Zpos XH), Mand), u8) :: ((((Zpos (XO XH)),
    Opt), u8) :: ((((Zpos (XI XH)), MandNE), (TArr blockParameters)) :: []))))

(** val classType : ty **)

let classType =
  s_ (((Z0, Mand), u16) :: ((((Zpos XH), Mand), u16) :: []))

(** val queryResponseSignature : ty **)

let queryResponseSignature =
  s_ (((Z0, Opt), u32) :: ((((Zpos XH), Opt), u16) :: ((((Zpos (XO XH)),
    Opt), u8) :: ((((Zpos (XI XH)), Opt), u8) :: ((((Zpos (XO (XO XH))),
    Opt), u8) :: ((((Zpos (XI (XO XH))), Opt), u8) :: ((((Zpos (XO (XI XH))),
    Opt), u16) :: ((((Zpos (XI (XI XH))), Opt), u16) :: ((((Zpos (XO (XO (XO
    XH)))), Opt), u32) :: ((((Zpos (XI (XO (XO XH)))), Opt), u16) :: ((((Zpos
    (XO (XI (XO XH)))), Opt), u32) :: ((((Zpos (XI (XI (XO XH)))), Opt),
    u16) :: ((((Zpos (XO (XO (XI XH)))), Opt), u16) :: ((((Zpos (XI (XO (XI
    XH)))), Opt), u8) :: ((((Zpos (XO (XI (XI XH)))), Opt), u16) :: ((((Zpos
    (XI (XI (XI XH)))), Opt), u32) :: ((((Zpos (XO (XO (XO (XO XH))))), Opt),
    u16) :: [])))))))))))))))))

(** val question : ty **)

let question =
  s_ (((Z0, Mand), u32) :: ((((Zpos XH), Mand), u32) :: []))

(** val rR : ty **)

let rR =
  s_ (((Z0, Mand), u32) :: ((((Zpos XH), Mand), u32) :: ((((Zpos (XO XH)),
    Opt), u32) :: ((((Zpos (XI XH)), Opt), u32) :: []))))

(** val malformedMessageData : ty **)

let malformedMessageData =
  s_ (((Z0, Opt), u32) :: ((((Zpos XH), Opt), u16) :: ((((Zpos (XO XH)),
    Opt), u8) :: ((((Zpos (XI XH)), Opt), TBytes) :: []))))

(** val responseProcessingData : ty **)

let responseProcessingData =
  s_ (((Z0, Opt), u32) :: ((((Zpos XH), Opt), u8) :: []))

(** val queryResponseExtended : ty **)

let queryResponseExtended =
  s_ (((Z0, Opt), u32) :: ((((Zpos XH), Opt), u32) :: ((((Zpos (XO XH)),
    Opt), u32) :: ((((Zpos (XI XH)), Opt), u32) :: []))))

(** val blockPreamble : ty **)

let blockPreamble =
  s_ (((Z0, Always), TTime) :: ((((Zpos XH), Opt), u32) :: []))

(** val blockStatistics : ty **)

let blockStatistics =
  s_ (((Z0, Opt), u32) :: ((((Zpos XH), Opt), u32) :: ((((Zpos (XO XH)),
    Opt), u32) :: ((((Zpos (XI XH)), Opt), u32) :: ((((Zpos (XO (XO XH))),
    Opt), u32) :: ((((Zpos (XI (XO XH))), Opt), u32) :: []))))))

(** val queryResponse : ty **)

let queryResponse =
  TMap (true,
    (mk_fields (((Z0, Opt), u64) :: ((((Zpos XH), Opt), u32) :: ((((Zpos (XO
      XH)), Opt), u16) :: ((((Zpos (XI XH)), Opt), u16) :: ((((Zpos (XO (XO
      XH))), Opt), u32) :: ((((Zpos (XI (XO XH))), Opt), u8) :: ((((Zpos (XO
      (XI XH))), Opt), TI) :: ((((Zpos (XI (XI XH))), Opt), u32) :: ((((Zpos
      (XO (XO (XO XH)))), Opt), u64) :: ((((Zpos (XI (XO (XO XH)))), Opt),
      u64) :: ((((Zpos (XO (XI (XO XH)))), Opt),
      responseProcessingData) :: ((((Zpos (XI (XI (XO XH)))), Opt),
      queryResponseExtended) :: ((((Zpos (XO (XO (XI XH)))), Opt),
      queryResponseExtended) :: ((((Zneg XH), Opt), TText) :: ((((Zneg (XO
      XH)), Opt), TText) :: ((((Zneg (XI XH)), Opt),
      TI) :: []))))))))))))))))))

(** val addressEventCount : ty **)

let addressEventCount =
  s_ (((Z0, Mand), u8) :: ((((Zpos XH), Opt), u8) :: ((((Zpos (XO XH)),
    Mand), u32) :: ((((Zpos (XI XH)), Opt), u8) :: ((((Zpos (XO (XO XH))),
    Mand), u64) :: [])))))

(** val malformedMessage : ty **)

let malformedMessage =
  s_ (((Z0, Opt), u64) :: ((((Zpos XH), Opt), u32) :: ((((Zpos (XO XH)),
    Opt), u16) :: ((((Zpos (XI XH)), Opt), u32) :: []))))

(** val blockTables : ty **)

let blockTables =
  s_ (((Z0, NonEmpty), (TArr TBytes)) :: ((((Zpos XH), NonEmpty), (TArr
    classType)) :: ((((Zpos (XO XH)), NonEmpty), (TArr TBytes)) :: ((((Zpos
    (XI XH)), NonEmpty), (TArr queryResponseSignature)) :: ((((Zpos (XO (XO
    XH))), NonEmpty), (TArr TIdx)) :: ((((Zpos (XI (XO XH))), NonEmpty),
    (TArr question)) :: ((((Zpos (XO (XI XH))), NonEmpty), (TArr
    TIdx)) :: ((((Zpos (XI (XI XH))), NonEmpty), (TArr rR)) :: ((((Zpos (XO
    (XO (XO XH)))), NonEmpty), (TArr malformedMessageData)) :: [])))))))))

(** val block : ty **)

let block =
  s_ (((Z0, Mand), blockPreamble) :: ((((Zpos XH), Opt),
    blockStatistics) :: ((((Zpos (XO XH)), Opt), blockTables) :: ((((Zpos (XI
    XH)), NonEmpty), (TArr queryResponse)) :: ((((Zpos (XO (XO XH))),
    NonEmpty), (TArr addressEventCount)) :: ((((Zpos (XI (XO XH))),
    NonEmpty), (TArr malformedMessage)) :: []))))))

(** val write_struct : ty -> val0 -> n list * n **)

let write_struct t v =
  let (e, rs) = eruns enc_init (write_val t v) in
  ((stream (flush e)), (fold_left N.add rs N0))

(** val list_eqb : ('a1 -> 'a1 -> bool) -> 'a1 list -> 'a1 list -> bool **)

let rec list_eqb eq a b =
  match a with
  | [] -> (match b with
           | [] -> true
           | _ :: _ -> false)
  | x :: a' ->
    (match b with
     | [] -> false
     | y :: b' -> (&&) (eq x y) (list_eqb eq a' b'))

(** val val_eqb : val0 -> val0 -> bool **)

let rec val_eqb a b =
  match a with
  | VN x -> (match b with
             | VN y -> N.eqb x y
             | _ -> false)
  | VZ x -> (match b with
             | VZ y -> Z.eqb x y
             | _ -> false)
  | VB x -> (match b with
             | VB y -> eqb x y
             | _ -> false)
  | VS x -> (match b with
             | VS y -> list_eqb N.eqb x y
             | _ -> false)
  | VL xs ->
    (match b with
     | VL ys ->
       let rec go l1 l2 =
         match l1 with
         | [] -> (match l2 with
                  | [] -> true
                  | _ :: _ -> false)
         | x :: l1' ->
           (match l2 with
            | [] -> false
            | y :: l2' -> (&&) (val_eqb x y) (go l1' l2'))
       in go xs ys
     | _ -> false)
  | VR xs ->
    (match b with
     | VR ys ->
       let rec go l1 l2 =
         match l1 with
         | [] -> (match l2 with
                  | [] -> true
                  | _ :: _ -> false)
         | o :: l1' ->
           (match o with
            | Some x ->
              (match l2 with
               | [] -> false
               | o0 :: l2' ->
                 (match o0 with
                  | Some y -> (&&) (val_eqb x y) (go l1' l2')
                  | None -> false))
            | None ->
              (match l2 with
               | [] -> false
               | o0 :: l2' ->
                 (match o0 with
                  | Some _ -> false
                  | None -> go l1' l2')))
       in go xs ys
     | _ -> false)

(** val tfind_from : n -> val0 list -> val0 -> n option **)

let rec tfind_from i t v =
  match t with
  | [] -> None
  | x :: t' ->
    if val_eqb x v then Some i else tfind_from (N.add i (Npos XH)) t' v

(** val tfind : val0 list -> val0 -> n option **)

let tfind t v =
  tfind_from N0 t v

(** val tadd : val0 list -> val0 -> val0 list * n **)

let tadd t v =
  match tfind t v with
  | Some i -> (t, i)
  | None -> ((app t (v :: [])), (N.of_nat (length t)))

type tid =
| T_ip
| T_ct
| T_nr
| T_sig
| T_qlist
| T_qrr
| T_rrlist
| T_rr
| T_mmd

type tables = { t_ip : val0 list; t_ct : val0 list; t_nr : val0 list;
                t_sig : val0 list; t_qlist : val0 list; t_qrr : val0 list;
                t_rrlist : val0 list; t_rr : val0 list; t_mmd : val0 list }

(** val tables_empty : tables **)

let tables_empty =
  { t_ip = []; t_ct = []; t_nr = []; t_sig = []; t_qlist = []; t_qrr = [];
    t_rrlist = []; t_rr = []; t_mmd = [] }

(** val tget : tables -> tid -> val0 list **)

let tget tb = function
| T_ip -> tb.t_ip
| T_ct -> tb.t_ct
| T_nr -> tb.t_nr
| T_sig -> tb.t_sig
| T_qlist -> tb.t_qlist
| T_qrr -> tb.t_qrr
| T_rrlist -> tb.t_rrlist
| T_rr -> tb.t_rr
| T_mmd -> tb.t_mmd

(** val tset : tables -> tid -> val0 list -> tables **)

let tset tb i l =
  match i with
  | T_ip ->
    { t_ip = l; t_ct = tb.t_ct; t_nr = tb.t_nr; t_sig = tb.t_sig; t_qlist =
      tb.t_qlist; t_qrr = tb.t_qrr; t_rrlist = tb.t_rrlist; t_rr = tb.t_rr;
      t_mmd = tb.t_mmd }
  | T_ct ->
    { t_ip = tb.t_ip; t_ct = l; t_nr = tb.t_nr; t_sig = tb.t_sig; t_qlist =
      tb.t_qlist; t_qrr = tb.t_qrr; t_rrlist = tb.t_rrlist; t_rr = tb.t_rr;
      t_mmd = tb.t_mmd }
  | T_nr ->
    { t_ip = tb.t_ip; t_ct = tb.t_ct; t_nr = l; t_sig = tb.t_sig; t_qlist =
      tb.t_qlist; t_qrr = tb.t_qrr; t_rrlist = tb.t_rrlist; t_rr = tb.t_rr;
      t_mmd = tb.t_mmd }
  | T_sig ->
    { t_ip = tb.t_ip; t_ct = tb.t_ct; t_nr = tb.t_nr; t_sig = l; t_qlist =
      tb.t_qlist; t_qrr = tb.t_qrr; t_rrlist = tb.t_rrlist; t_rr = tb.t_rr;
      t_mmd = tb.t_mmd }
  | T_qlist ->
    { t_ip = tb.t_ip; t_ct = tb.t_ct; t_nr = tb.t_nr; t_sig = tb.t_sig;
      t_qlist = l; t_qrr = tb.t_qrr; t_rrlist = tb.t_rrlist; t_rr = tb.t_rr;
      t_mmd = tb.t_mmd }
  | T_qrr ->
    { t_ip = tb.t_ip; t_ct = tb.t_ct; t_nr = tb.t_nr; t_sig = tb.t_sig;
      t_qlist = tb.t_qlist; t_qrr = l; t_rrlist = tb.t_rrlist; t_rr =
      tb.t_rr; t_mmd = tb.t_mmd }
  | T_rrlist ->
    { t_ip = tb.t_ip; t_ct = tb.t_ct; t_nr = tb.t_nr; t_sig = tb.t_sig;
      t_qlist = tb.t_qlist; t_qrr = tb.t_qrr; t_rrlist = l; t_rr = tb.t_rr;
      t_mmd = tb.t_mmd }
  | T_rr ->
    { t_ip = tb.t_ip; t_ct = tb.t_ct; t_nr = tb.t_nr; t_sig = tb.t_sig;
      t_qlist = tb.t_qlist; t_qrr = tb.t_qrr; t_rrlist = tb.t_rrlist; t_rr =
      l; t_mmd = tb.t_mmd }
  | T_mmd ->
    { t_ip = tb.t_ip; t_ct = tb.t_ct; t_nr = tb.t_nr; t_sig = tb.t_sig;
      t_qlist = tb.t_qlist; t_qrr = tb.t_qrr; t_rrlist = tb.t_rrlist; t_rr =
      tb.t_rr; t_mmd = l }

(** val add_to : tables -> tid -> val0 -> tables * n **)

let add_to tb i v =
  let (l, ix) = tadd (tget tb i) v in ((tset tb i l), ix)

(** val via : tables -> tid -> val0 option -> tables * val0 option **)

let via tb i = function
| Some v -> let (tb', ix) = add_to tb i v in (tb', (Some (VN ix)))
| None -> (tb, None)

type bparams = { bp_tps : n; bp_max : n; h_qr : n; h_sig : n; h_rr : 
                 n; h_other : n }

(** val nth_o : val0 option list -> nat -> val0 option **)

let nth_o l i =
  nth i l None

(** val vn : val0 option -> n **)

let vn = function
| Some v -> (match v with
             | VN n0 -> n0
             | _ -> N0)
| None -> N0

(** val bp_of_val : val0 -> bparams **)

let bp_of_val = function
| VR fs ->
  (match fs with
   | [] ->
     { bp_tps = N0; bp_max = N0; h_qr = N0; h_sig = N0; h_rr = N0; h_other =
       N0 }
   | o :: _ ->
     (match o with
      | Some v ->
        (match v with
         | VR sp ->
           let hints =
             match nth_o sp (S (S O)) with
             | Some v0 ->
               (match v0 with
                | VN _ -> []
                | VZ _ -> []
                | VB _ -> []
                | VS _ -> []
                | VL _ -> []
                | VR h -> h)
             | None -> []
           in
           { bp_tps = (vn (nth_o sp O)); bp_max = (vn (nth_o sp (S O)));
           h_qr = (vn (nth_o hints O)); h_sig = (vn (nth_o hints (S O)));
           h_rr = (vn (nth_o hints (S (S O)))); h_other =
           (vn (nth_o hints (S (S (S O))))) }
         | _ ->
           { bp_tps = N0; bp_max = N0; h_qr = N0; h_sig = N0; h_rr = N0;
             h_other = N0 })
      | None ->
        { bp_tps = N0; bp_max = N0; h_qr = N0; h_sig = N0; h_rr = N0;
          h_other = N0 }))
| _ ->
  { bp_tps = N0; bp_max = N0; h_qr = N0; h_sig = N0; h_rr = N0; h_other = N0 }

(** val bit : n -> n -> val0 option -> val0 option **)

let bit h i ov =
  if N.testbit h i then ov else None

(** val filled : val0 option list -> bool **)

let filled l =
  existsb (fun o -> match o with
                    | Some _ -> true
                    | None -> false) l

type blk = { b_earliest : ts; b_bpi : n; b_bp : bparams;
             b_stats : val0 option; b_tb : tables; b_qrs : val0 list;
             b_aecs : (val0 * n) list; b_mms : val0 list }

(** val ts0 : ts **)

let ts0 =
  { secs = Z0; ticks = Z0 }

(** val blk_new : bparams -> n -> blk **)

let blk_new bp bpi =
  { b_earliest = ts0; b_bpi = bpi; b_bp = bp; b_stats = None; b_tb =
    tables_empty; b_qrs = []; b_aecs = []; b_mms = [] }

(** val blk_clear : blk -> blk **)

let blk_clear b =
  { b_earliest = ts0; b_bpi = b.b_bpi; b_bp = b.b_bp; b_stats = None; b_tb =
    tables_empty; b_qrs = []; b_aecs = []; b_mms = [] }

(** val item_count : blk -> n **)

let item_count b =
  N.of_nat (add (add (length b.b_qrs) (length b.b_aecs)) (length b.b_mms))

(** val blk_full : blk -> bool **)

let blk_full b =
  (||)
    ((||) (N.leb b.b_bp.bp_max (N.of_nat (length b.b_qrs)))
      (N.leb b.b_bp.bp_max (N.of_nat (length b.b_aecs))))
    (N.leb b.b_bp.bp_max (N.of_nat (length b.b_mms)))

(** val blk_set_bp : blk -> bparams -> n -> blk * bool **)

let blk_set_bp b bp bpi =
  if N.ltb N0 (item_count b)
  then (b, false)
  else ({ b_earliest = b.b_earliest; b_bpi = bpi; b_bp = bp; b_stats =
         b.b_stats; b_tb = b.b_tb; b_qrs = b.b_qrs; b_aecs = b.b_aecs;
         b_mms = b.b_mms }, true)

(** val ts_of_val : val0 -> ts option **)

let ts_of_val = function
| VL xs ->
  (match xs with
   | [] -> None
   | v0 :: l ->
     (match v0 with
      | VN s ->
        (match l with
         | [] -> None
         | v1 :: l0 ->
           (match v1 with
            | VN k ->
              (match l0 with
               | [] -> Some { secs = (Z.of_N s); ticks = (Z.of_N k) }
               | _ :: _ -> None)
            | _ -> None))
      | _ -> None))
| _ -> None

(** val upd_earliest : blk -> val0 option -> ts **)

let upd_earliest b = function
| Some tv ->
  (match ts_of_val tv with
   | Some t ->
     if (||)
          (match b.b_qrs with
           | [] -> (match b.b_mms with
                    | [] -> true
                    | _ :: _ -> false)
           | _ :: _ -> false) (ts_lt t b.b_earliest)
     then t
     else b.b_earliest
   | None -> b.b_earliest)
| None -> b.b_earliest

(** val with_stats : val0 option -> val0 option -> val0 option **)

let with_stats old new0 = match new0 with
| Some _ -> new0
| None -> old

(** val rr_name : val0 -> val0 option **)

let rr_name = function
| VR l -> nth_o l O
| _ -> None

(** val rr_ct : val0 -> val0 option **)

let rr_ct = function
| VR l -> nth_o l (S O)
| _ -> None

(** val rr_ttl : val0 -> val0 option **)

let rr_ttl = function
| VR l -> nth_o l (S (S O))
| _ -> None

(** val rr_rdata : val0 -> val0 option **)

let rr_rdata = function
| VR l -> nth_o l (S (S (S O)))
| _ -> None

(** val oval : val0 option -> val0 **)

let oval = function
| Some v -> v
| None -> VN N0

(** val add_questions :
    tables -> val0 list -> val0 list -> tables * val0 list **)

let rec add_questions tb gl racc =
  match gl with
  | [] -> (tb, (frev racc))
  | g :: gl' ->
    let (tb1, ni) = add_to tb T_nr (oval (rr_name g)) in
    let (tb2, ci) = add_to tb1 T_ct (oval (rr_ct g)) in
    let (tb3, qi) =
      add_to tb2 T_qrr (VR ((Some (VN ni)) :: ((Some (VN ci)) :: [])))
    in
    add_questions tb3 gl' ((VN qi) :: racc)

(** val add_generic_qlist : tables -> val0 list -> tables * n **)

let add_generic_qlist tb gl =
  let (tb1, ixs) = add_questions tb gl [] in add_to tb1 T_qlist (VL ixs)

(** val add_rrs :
    n -> tables -> val0 list -> val0 list -> tables * val0 list **)

let rec add_rrs hrr tb gl racc =
  match gl with
  | [] -> (tb, (frev racc))
  | g :: gl' ->
    let (tb1, ni) = add_to tb T_nr (oval (rr_name g)) in
    let (tb2, ci) = add_to tb1 T_ct (oval (rr_ct g)) in
    let ttl = bit hrr N0 (rr_ttl g) in
    let (tb3, rd) = via tb2 T_nr (bit hrr (Npos XH) (rr_rdata g)) in
    let (tb4, ri) =
      add_to tb3 T_rr (VR ((Some (VN ni)) :: ((Some (VN
        ci)) :: (ttl :: (rd :: [])))))
    in
    add_rrs hrr tb4 gl' ((VN ri) :: racc)

(** val add_generic_rrlist : n -> tables -> val0 list -> tables * n **)

let add_generic_rrlist hrr tb gl =
  let (tb1, ixs) = add_rrs hrr tb gl [] in add_to tb1 T_rrlist (VL ixs)

(** val section : val0 option -> val0 list option **)

let section = function
| Some v ->
  (match v with
   | VL xs -> (match xs with
               | [] -> None
               | x :: l -> Some (x :: l))
   | _ -> None)
| None -> None

(** val via_qlist :
    tables -> n -> n -> val0 option -> tables * val0 option **)

let via_qlist tb h b ov =
  if N.testbit h b
  then (match section ov with
        | Some gl ->
          let (tb', ix) = add_generic_qlist tb gl in (tb', (Some (VN ix)))
        | None -> (tb, None))
  else (tb, None)

(** val via_rrlist :
    n -> tables -> n -> n -> val0 option -> tables * val0 option **)

let via_rrlist hrr tb h b ov =
  if N.testbit h b
  then (match section ov with
        | Some gl ->
          let (tb', ix) = add_generic_rrlist hrr tb gl in
          (tb', (Some (VN ix)))
        | None -> (tb, None))
  else (tb, None)

(** val build_qr :
    bparams -> val0 option list -> tables -> tables * val0 option list **)

let build_qr bp gr tb =
  let g = nth_o gr in
  let hq = bp.h_qr in
  let hs = bp.h_sig in
  let hr = bp.h_rr in
  let s0 = bit hq N0 (g O) in
  let (tb0, s1) = via tb T_ip (bit hq (Npos XH) (g (S O))) in
  let s2 = bit hq (Npos (XO XH)) (g (S (S O))) in
  let s3 = bit hq (Npos (XI XH)) (g (S (S (S O)))) in
  let (tb1, s4) =
    if N.testbit hq (Npos (XO (XO XH)))
    then let (tb1, q0) = via tb0 T_ip (bit hs N0 (g (S (S (S (S O)))))) in
         let (tb2, q8) =
           via tb1 T_ct
             (bit hs (Npos (XO (XO (XO XH))))
               (g (S (S (S (S (S (S (S (S (S (S (S (S O))))))))))))))
         in
         let (tb3, q15) =
           via tb2 T_nr
             (bit hs (Npos (XI (XI (XI XH))))
               (g (S (S (S (S (S (S (S (S (S (S (S (S (S (S (S (S (S (S (S
                 O)))))))))))))))))))))
         in
         let sig0 =
           q0 :: ((bit hs (Npos XH) (g (S (S (S (S (S O))))))) :: ((bit hs
                                                                    (Npos (XO
                                                                    XH))
                                                                    (g (S (S
                                                                    (S (S (S
                                                                    (S
                                                                    O)))))))) :: (
           (bit hs (Npos (XI XH)) (g (S (S (S (S (S (S (S O))))))))) :: (
           (bit hs (Npos (XO (XO XH))) (g (S (S (S (S (S (S (S (S O)))))))))) :: (
           (bit hs (Npos (XI (XO XH)))
             (g (S (S (S (S (S (S (S (S (S O))))))))))) :: ((bit hs (Npos (XO
                                                              (XI XH)))
                                                              (g (S (S (S (S
                                                                (S (S (S (S
                                                                (S (S
                                                                O)))))))))))) :: (
           (bit hs (Npos (XI (XI XH)))
             (g (S (S (S (S (S (S (S (S (S (S (S O))))))))))))) :: (q8 :: (
           (bit hs (Npos (XI (XO (XO XH))))
             (g (S (S (S (S (S (S (S (S (S (S (S (S (S O))))))))))))))) :: (
           (bit hs (Npos (XO (XI (XO XH))))
             (g (S (S (S (S (S (S (S (S (S (S (S (S (S (S O)))))))))))))))) :: (
           (bit hs (Npos (XI (XI (XO XH))))
             (g (S (S (S (S (S (S (S (S (S (S (S (S (S (S (S O))))))))))))))))) :: (
           (bit hs (Npos (XO (XO (XI XH))))
             (g (S (S (S (S (S (S (S (S (S (S (S (S (S (S (S (S
               O)))))))))))))))))) :: ((bit hs (Npos (XI (XO (XI XH))))
                                         (g (S (S (S (S (S (S (S (S (S (S (S
                                           (S (S (S (S (S (S
                                           O))))))))))))))))))) :: ((bit hs
                                                                    (Npos (XO
                                                                    (XI (XI
                                                                    XH))))
                                                                    (g (S (S
                                                                    (S (S (S
                                                                    (S (S (S
                                                                    (S (S (S
                                                                    (S (S (S
                                                                    (S (S (S
                                                                    (S
                                                                    O)))))))))))))))))))) :: (q15 :: (
           (bit hs (Npos (XO (XO (XO (XO XH)))))
             (g (S (S (S (S (S (S (S (S (S (S (S (S (S (S (S (S (S (S (S (S
               O)))))))))))))))))))))) :: []))))))))))))))))
         in
         if filled sig0
         then let (tb4, ix) = add_to tb3 T_sig (VR sig0) in
              (tb4, (Some (VN ix)))
         else (tb3, None)
    else (tb0, None)
  in
  let s5 =
    bit hq (Npos (XI (XO XH)))
      (g (S (S (S (S (S (S (S (S (S (S (S (S (S (S (S (S (S (S (S (S (S
        O))))))))))))))))))))))
  in
  let s6 =
    bit hq (Npos (XO (XI XH)))
      (g (S (S (S (S (S (S (S (S (S (S (S (S (S (S (S (S (S (S (S (S (S (S
        O)))))))))))))))))))))))
  in
  let (tb2, s7) =
    via tb1 T_nr
      (bit hq (Npos (XI (XI XH)))
        (g (S (S (S (S (S (S (S (S (S (S (S (S (S (S (S (S (S (S (S (S (S (S
          (S O)))))))))))))))))))))))))
  in
  let s8 =
    bit hq (Npos (XO (XO (XO XH))))
      (g (S (S (S (S (S (S (S (S (S (S (S (S (S (S (S (S (S (S (S (S (S (S (S
        (S O)))))))))))))))))))))))))
  in
  let s9 =
    bit hq (Npos (XI (XO (XO XH))))
      (g (S (S (S (S (S (S (S (S (S (S (S (S (S (S (S (S (S (S (S (S (S (S (S
        (S (S O))))))))))))))))))))))))))
  in
  let (tb3, s10) =
    if N.testbit hq (Npos (XO (XI (XO XH))))
    then let (tb3, bw) =
           via tb2 T_nr
             (g (S (S (S (S (S (S (S (S (S (S (S (S (S (S (S (S (S (S (S (S
               (S (S (S (S (S (S O)))))))))))))))))))))))))))
         in
         let rpd =
           bw :: ((g (S (S (S (S (S (S (S (S (S (S (S (S (S (S (S (S (S (S (S
                    (S (S (S (S (S (S (S (S O)))))))))))))))))))))))))))) :: [])
         in
         if filled rpd then (tb3, (Some (VR rpd))) else (tb3, None)
    else (tb2, None)
  in
  let (tb4, e0) =
    via_qlist tb3 hq (Npos (XI (XI (XO XH))))
      (g (S (S (S (S (S (S (S (S (S (S (S (S (S (S (S (S (S (S (S (S (S (S (S
        (S (S (S (S (S O)))))))))))))))))))))))))))))
  in
  let (tb5, e1) =
    via_rrlist hr tb4 hq (Npos (XO (XO (XI XH))))
      (g (S (S (S (S (S (S (S (S (S (S (S (S (S (S (S (S (S (S (S (S (S (S (S
        (S (S (S (S (S (S O))))))))))))))))))))))))))))))
  in
  let (tb6, e2) =
    via_rrlist hr tb5 hq (Npos (XI (XO (XI XH))))
      (g (S (S (S (S (S (S (S (S (S (S (S (S (S (S (S (S (S (S (S (S (S (S (S
        (S (S (S (S (S (S (S O)))))))))))))))))))))))))))))))
  in
  let (tb7, e3) =
    via_rrlist hr tb6 hq (Npos (XO (XI (XI XH))))
      (g (S (S (S (S (S (S (S (S (S (S (S (S (S (S (S (S (S (S (S (S (S (S (S
        (S (S (S (S (S (S (S (S O))))))))))))))))))))))))))))))))
  in
  let qe = e0 :: (e1 :: (e2 :: (e3 :: []))) in
  let s11 = if filled qe then Some (VR qe) else None in
  let (tb8, r0) =
    via_qlist tb7 hq (Npos (XI (XI (XO XH))))
      (g (S (S (S (S (S (S (S (S (S (S (S (S (S (S (S (S (S (S (S (S (S (S (S
        (S (S (S (S (S (S (S (S (S O)))))))))))))))))))))))))))))))))
  in
  let (tb9, r1) =
    via_rrlist hr tb8 hq (Npos (XI (XI (XI XH))))
      (g (S (S (S (S (S (S (S (S (S (S (S (S (S (S (S (S (S (S (S (S (S (S (S
        (S (S (S (S (S (S (S (S (S (S O))))))))))))))))))))))))))))))))))
  in
  let (tb10, r2) =
    via_rrlist hr tb9 hq (Npos (XO (XO (XO (XO XH)))))
      (g (S (S (S (S (S (S (S (S (S (S (S (S (S (S (S (S (S (S (S (S (S (S (S
        (S (S (S (S (S (S (S (S (S (S (S O)))))))))))))))))))))))))))))))))))
  in
  let (tb11, r3) =
    via_rrlist hr tb10 hq (Npos (XI (XO (XO (XO XH)))))
      (g (S (S (S (S (S (S (S (S (S (S (S (S (S (S (S (S (S (S (S (S (S (S (S
        (S (S (S (S (S (S (S (S (S (S (S (S
        O))))))))))))))))))))))))))))))))))))
  in
  let re = r0 :: (r1 :: (r2 :: (r3 :: []))) in
  let s12 = if filled re then Some (VR re) else None in
  (tb11,
  (s0 :: (s1 :: (s2 :: (s3 :: (s4 :: (s5 :: (s6 :: (s7 :: (s8 :: (s9 :: (s10 :: (s11 :: (s12 :: (
  (g (S (S (S (S (S (S (S (S (S (S (S (S (S (S (S (S (S (S (S (S (S (S (S (S
    (S (S (S (S (S (S (S (S (S (S (S (S O))))))))))))))))))))))))))))))))))))) :: (
  (g (S (S (S (S (S (S (S (S (S (S (S (S (S (S (S (S (S (S (S (S (S (S (S (S
    (S (S (S (S (S (S (S (S (S (S (S (S (S
    O)))))))))))))))))))))))))))))))))))))) :: ((g (S (S (S (S (S (S (S (S (S
                                                  (S (S (S (S (S (S (S (S (S
                                                  (S (S (S (S (S (S (S (S (S
                                                  (S (S (S (S (S (S (S (S (S
                                                  (S (S
                                                  O))))))))))))))))))))))))))))))))))))))) :: [])))))))))))))))))

(** val add_qr : val0 option list -> val0 option -> blk -> blk * bool **)

let add_qr gr st b =
  let earliest0 = upd_earliest b (nth_o gr O) in
  let (tb, item) = build_qr b.b_bp gr b.b_tb in
  let qrs = if filled item then app b.b_qrs ((VR item) :: []) else b.b_qrs in
  let b' = { b_earliest = earliest0; b_bpi = b.b_bpi; b_bp = b.b_bp;
    b_stats = (with_stats b.b_stats st); b_tb = tb; b_qrs = qrs; b_aecs =
    b.b_aecs; b_mms = b.b_mms }
  in
  (b', (blk_full b'))

(** val aec_bump : (val0 * n) list -> val0 -> (val0 * n) list **)

let rec aec_bump l k =
  match l with
  | [] -> (k, (Npos XH)) :: []
  | p :: l' ->
    let (k', c) = p in
    if val_eqb k' k
    then (k', (N.add c (Npos XH))) :: l'
    else (k', c) :: (aec_bump l' k)

(** val add_aec : val0 option list -> val0 option -> blk -> blk * bool **)

let add_aec ga st b =
  if negb (N.testbit b.b_bp.h_other (Npos XH))
  then (b, false)
  else let g = nth_o ga in
       let (tb, ix) = add_to b.b_tb T_ip (oval (g (S (S (S O))))) in
       let key = VR ((g O) :: ((g (S O)) :: ((Some (VN
         ix)) :: ((g (S (S O))) :: ((Some (VN N0)) :: [])))))
       in
       let b' = { b_earliest = b.b_earliest; b_bpi = b.b_bpi; b_bp = b.b_bp;
         b_stats = (with_stats b.b_stats st); b_tb = tb; b_qrs = b.b_qrs;
         b_aecs = (aec_bump b.b_aecs key); b_mms = b.b_mms }
       in
       (b', (blk_full b'))

(** val build_mm : val0 option list -> tables -> tables * val0 option list **)

let build_mm gm tb =
  let g = nth_o gm in
  let (tb0, c1) = via tb T_ip (g (S O)) in
  let (tb1, d0) = via tb0 T_ip (g (S (S (S O)))) in
  let mmd =
    d0 :: ((g (S (S (S (S O))))) :: ((g (S (S (S (S (S O)))))) :: ((g (S (S
                                                                    (S (S (S
                                                                    (S
                                                                    O))))))) :: [])))
  in
  if filled mmd
  then let (tb2, ix) = add_to tb1 T_mmd (VR mmd) in
       let m3 = Some (VN ix) in
       (tb2, ((g O) :: (c1 :: ((g (S (S O))) :: (m3 :: [])))))
  else let m3 = None in
       (tb1, ((g O) :: (c1 :: ((g (S (S O))) :: (m3 :: [])))))

(** val add_mm : val0 option list -> val0 option -> blk -> blk * bool **)

let add_mm gm st b =
  if negb (N.testbit b.b_bp.h_other N0)
  then (b, false)
  else let earliest0 = upd_earliest b (nth_o gm O) in
       let (tb, item) = build_mm gm b.b_tb in
       let mms =
         if filled item then app b.b_mms ((VR item) :: []) else b.b_mms
       in
       let b' = { b_earliest = earliest0; b_bpi = b.b_bpi; b_bp = b.b_bp;
         b_stats = (with_stats b.b_stats st); b_tb = tb; b_qrs = b.b_qrs;
         b_aecs = b.b_aecs; b_mms = mms }
       in
       (b', (blk_full b'))

(** val add_qr_item : val0 option list -> val0 option -> blk -> blk * bool **)

let add_qr_item item st b =
  if filled item
  then let b' = { b_earliest = (upd_earliest b (nth_o item O)); b_bpi =
         b.b_bpi; b_bp = b.b_bp; b_stats = (with_stats b.b_stats st); b_tb =
         b.b_tb; b_qrs = (app b.b_qrs ((VR item) :: [])); b_aecs = b.b_aecs;
         b_mms = b.b_mms }
       in
       (b', (blk_full b'))
  else (b, (blk_full b))

(** val add_mm_item : val0 option list -> val0 option -> blk -> blk * bool **)

let add_mm_item item st b =
  if filled item
  then let b' = { b_earliest = (upd_earliest b (nth_o item O)); b_bpi =
         b.b_bpi; b_bp = b.b_bp; b_stats = (with_stats b.b_stats st); b_tb =
         b.b_tb; b_qrs = b.b_qrs; b_aecs = b.b_aecs; b_mms =
         (app b.b_mms ((VR item) :: [])) }
       in
       (b', (blk_full b'))
  else (b, (blk_full b))

(** val add_aec_item :
    val0 option list -> val0 option -> blk -> blk * bool **)

let add_aec_item key st b =
  if negb (N.testbit b.b_bp.h_other (Npos XH))
  then (b, false)
  else let k = VR
         ((nth_o key O) :: ((nth_o key (S O)) :: ((nth_o key (S (S O))) :: (
         (nth_o key (S (S (S O)))) :: ((Some (VN N0)) :: [])))))
       in
       let b' = { b_earliest = b.b_earliest; b_bpi = b.b_bpi; b_bp = b.b_bp;
         b_stats = (with_stats b.b_stats st); b_tb = b.b_tb; b_qrs = b.b_qrs;
         b_aecs = (aec_bump b.b_aecs k); b_mms = b.b_mms }
       in
       (b', (blk_full b'))

(** val to_u64 : z -> n **)

let to_u64 z0 =
  Z.to_N (Z.modulo z0 (Z.of_N two64))

(** val offset_val : ts -> n -> val0 -> val0 **)

let offset_val earliest0 tps tv =
  match ts_of_val tv with
  | Some t ->
    (match get_time_offset t earliest0 (Z.of_N tps) with
     | TOk z0 -> VN (to_u64 z0)
     | _ -> VN N0)
  | None -> VN N0

(** val conv_item : ts -> n -> val0 -> val0 **)

let conv_item earliest0 tps it = match it with
| VR fs ->
  (match fs with
   | [] -> it
   | o :: rest0 ->
     (match o with
      | Some tv -> VR ((Some (offset_val earliest0 tps tv)) :: rest0)
      | None -> it))
| _ -> it

(** val aec_val : (val0 * n) -> val0 **)

let aec_val kc =
  match fst kc with
  | VR fs ->
    (match fs with
     | [] -> VR []
     | a :: l ->
       (match l with
        | [] -> VR (a :: [])
        | b :: l0 ->
          (match l0 with
           | [] -> VR (a :: (b :: []))
           | c :: l1 ->
             (match l1 with
              | [] -> VR (a :: (b :: (c :: [])))
              | d :: l2 ->
                (match l2 with
                 | [] -> VR (a :: (b :: (c :: (d :: []))))
                 | o :: l3 ->
                   (match l3 with
                    | [] ->
                      VR (a :: (b :: (c :: (d :: ((Some (VN
                        (snd kc))) :: [])))))
                    | o0 :: l4 ->
                      VR (a :: (b :: (c :: (d :: (o :: (o0 :: l4))))))))))))
  | x -> x

(** val ne_list : val0 list -> val0 option **)

let ne_list l =
  Some (VL l)

(** val tables_val : tables -> val0 option **)

let tables_val tb =
  match tb.t_ip with
  | [] ->
    (match tb.t_ct with
     | [] ->
       (match tb.t_nr with
        | [] ->
          (match tb.t_sig with
           | [] ->
             (match tb.t_qlist with
              | [] ->
                (match tb.t_qrr with
                 | [] ->
                   (match tb.t_rrlist with
                    | [] ->
                      (match tb.t_rr with
                       | [] ->
                         (match tb.t_mmd with
                          | [] -> None
                          | _ :: _ ->
                            Some (VR
                              ((ne_list tb.t_ip) :: ((ne_list tb.t_ct) :: (
                              (ne_list tb.t_nr) :: ((ne_list tb.t_sig) :: (
                              (ne_list tb.t_qlist) :: ((ne_list tb.t_qrr) :: (
                              (ne_list tb.t_rrlist) :: ((ne_list tb.t_rr) :: (
                              (ne_list tb.t_mmd) :: [])))))))))))
                       | _ :: _ ->
                         Some (VR
                           ((ne_list tb.t_ip) :: ((ne_list tb.t_ct) :: (
                           (ne_list tb.t_nr) :: ((ne_list tb.t_sig) :: (
                           (ne_list tb.t_qlist) :: ((ne_list tb.t_qrr) :: (
                           (ne_list tb.t_rrlist) :: ((ne_list tb.t_rr) :: (
                           (ne_list tb.t_mmd) :: [])))))))))))
                    | _ :: _ ->
                      Some (VR
                        ((ne_list tb.t_ip) :: ((ne_list tb.t_ct) :: (
                        (ne_list tb.t_nr) :: ((ne_list tb.t_sig) :: (
                        (ne_list tb.t_qlist) :: ((ne_list tb.t_qrr) :: (
                        (ne_list tb.t_rrlist) :: ((ne_list tb.t_rr) :: (
                        (ne_list tb.t_mmd) :: [])))))))))))
                 | _ :: _ ->
                   Some (VR
                     ((ne_list tb.t_ip) :: ((ne_list tb.t_ct) :: ((ne_list
                                                                    tb.t_nr) :: (
                     (ne_list tb.t_sig) :: ((ne_list tb.t_qlist) :: (
                     (ne_list tb.t_qrr) :: ((ne_list tb.t_rrlist) :: (
                     (ne_list tb.t_rr) :: ((ne_list tb.t_mmd) :: [])))))))))))
              | _ :: _ ->
                Some (VR
                  ((ne_list tb.t_ip) :: ((ne_list tb.t_ct) :: ((ne_list
                                                                 tb.t_nr) :: (
                  (ne_list tb.t_sig) :: ((ne_list tb.t_qlist) :: ((ne_list
                                                                    tb.t_qrr) :: (
                  (ne_list tb.t_rrlist) :: ((ne_list tb.t_rr) :: ((ne_list
                                                                    tb.t_mmd) :: [])))))))))))
           | _ :: _ ->
             Some (VR
               ((ne_list tb.t_ip) :: ((ne_list tb.t_ct) :: ((ne_list tb.t_nr) :: (
               (ne_list tb.t_sig) :: ((ne_list tb.t_qlist) :: ((ne_list
                                                                 tb.t_qrr) :: (
               (ne_list tb.t_rrlist) :: ((ne_list tb.t_rr) :: ((ne_list
                                                                 tb.t_mmd) :: [])))))))))))
        | _ :: _ ->
          Some (VR
            ((ne_list tb.t_ip) :: ((ne_list tb.t_ct) :: ((ne_list tb.t_nr) :: (
            (ne_list tb.t_sig) :: ((ne_list tb.t_qlist) :: ((ne_list tb.t_qrr) :: (
            (ne_list tb.t_rrlist) :: ((ne_list tb.t_rr) :: ((ne_list tb.t_mmd) :: [])))))))))))
     | _ :: _ ->
       Some (VR
         ((ne_list tb.t_ip) :: ((ne_list tb.t_ct) :: ((ne_list tb.t_nr) :: (
         (ne_list tb.t_sig) :: ((ne_list tb.t_qlist) :: ((ne_list tb.t_qrr) :: (
         (ne_list tb.t_rrlist) :: ((ne_list tb.t_rr) :: ((ne_list tb.t_mmd) :: [])))))))))))
  | _ :: _ ->
    Some (VR
      ((ne_list tb.t_ip) :: ((ne_list tb.t_ct) :: ((ne_list tb.t_nr) :: (
      (ne_list tb.t_sig) :: ((ne_list tb.t_qlist) :: ((ne_list tb.t_qrr) :: (
      (ne_list tb.t_rrlist) :: ((ne_list tb.t_rr) :: ((ne_list tb.t_mmd) :: []))))))))))

(** val ts_val : ts -> val0 **)

let ts_val t =
  VL ((VN (Z.to_N t.secs)) :: ((VN (Z.to_N t.ticks)) :: []))

(** val blk_val : blk -> val0 **)

let blk_val b =
  let tps = b.b_bp.bp_tps in
  VR ((Some (VR ((Some (ts_val b.b_earliest)) :: ((Some (VN
  b.b_bpi)) :: [])))) :: (b.b_stats :: ((tables_val b.b_tb) :: ((ne_list
                                                                  (map
                                                                    (conv_item
                                                                    b.b_earliest
                                                                    tps)
                                                                    b.b_qrs)) :: (
  (ne_list (map aec_val b.b_aecs)) :: ((ne_list
                                         (map (conv_item b.b_earliest tps)
                                           b.b_mms)) :: []))))))

type exporter = { x_major : val0 option; x_minor : val0 option;
                  x_private : val0 option; x_params : val0 list; x_blk : 
                  blk; x_active : n; x_written : n; x_enc : enc;
                  x_closed : n list list; x_done : blk list }

(** val preamble_val : exporter -> val0 **)

let preamble_val x =
  VR (x.x_major :: (x.x_minor :: (x.x_private :: ((Some (VL
    x.x_params)) :: []))))

(** val nth_bp : val0 list -> n -> bparams **)

let nth_bp ps i =
  bp_of_val (nth (N.to_nat i) ps (VR []))

(** val x_new : val0 -> exporter **)

let x_new = function
| VR fs ->
  (match fs with
   | [] ->
     { x_major = None; x_minor = None; x_private = None; x_params = [];
       x_blk =
       (blk_new { bp_tps = N0; bp_max = N0; h_qr = N0; h_sig = N0; h_rr = N0;
         h_other = N0 } N0); x_active = N0; x_written = N0; x_enc = enc_init;
       x_closed = []; x_done = [] }
   | ma :: l ->
     (match l with
      | [] ->
        { x_major = None; x_minor = None; x_private = None; x_params = [];
          x_blk =
          (blk_new { bp_tps = N0; bp_max = N0; h_qr = N0; h_sig = N0; h_rr =
            N0; h_other = N0 } N0); x_active = N0; x_written = N0; x_enc =
          enc_init; x_closed = []; x_done = [] }
      | mi :: l0 ->
        (match l0 with
         | [] ->
           { x_major = None; x_minor = None; x_private = None; x_params = [];
             x_blk =
             (blk_new { bp_tps = N0; bp_max = N0; h_qr = N0; h_sig = N0;
               h_rr = N0; h_other = N0 } N0); x_active = N0; x_written = N0;
             x_enc = enc_init; x_closed = []; x_done = [] }
         | pv :: l1 ->
           (match l1 with
            | [] ->
              { x_major = None; x_minor = None; x_private = None; x_params =
                []; x_blk =
                (blk_new { bp_tps = N0; bp_max = N0; h_qr = N0; h_sig = N0;
                  h_rr = N0; h_other = N0 } N0); x_active = N0; x_written =
                N0; x_enc = enc_init; x_closed = []; x_done = [] }
            | o :: l2 ->
              (match o with
               | Some v ->
                 (match v with
                  | VL ps ->
                    (match l2 with
                     | [] ->
                       { x_major = ma; x_minor = mi; x_private = pv;
                         x_params = ps; x_blk = (blk_new (nth_bp ps N0) N0);
                         x_active = N0; x_written = N0; x_enc = enc_init;
                         x_closed = []; x_done = [] }
                     | _ :: _ ->
                       { x_major = None; x_minor = None; x_private = None;
                         x_params = []; x_blk =
                         (blk_new { bp_tps = N0; bp_max = N0; h_qr = N0;
                           h_sig = N0; h_rr = N0; h_other = N0 } N0);
                         x_active = N0; x_written = N0; x_enc = enc_init;
                         x_closed = []; x_done = [] })
                  | _ ->
                    { x_major = None; x_minor = None; x_private = None;
                      x_params = []; x_blk =
                      (blk_new { bp_tps = N0; bp_max = N0; h_qr = N0; h_sig =
                        N0; h_rr = N0; h_other = N0 } N0); x_active = N0;
                      x_written = N0; x_enc = enc_init; x_closed = [];
                      x_done = [] })
               | None ->
                 { x_major = None; x_minor = None; x_private = None;
                   x_params = []; x_blk =
                   (blk_new { bp_tps = N0; bp_max = N0; h_qr = N0; h_sig =
                     N0; h_rr = N0; h_other = N0 } N0); x_active = N0;
                   x_written = N0; x_enc = enc_init; x_closed = []; x_done =
                   [] })))))
| _ ->
  { x_major = None; x_minor = None; x_private = None; x_params = []; x_blk =
    (blk_new { bp_tps = N0; bp_max = N0; h_qr = N0; h_sig = N0; h_rr = N0;
      h_other = N0 } N0); x_active = N0; x_written = N0; x_enc = enc_init;
    x_closed = []; x_done = [] }

(** val enc_run : enc -> eop list -> enc * n **)

let enc_run e ops =
  let (e', rs) = eruns e ops in (e', (fold_left N.add rs N0))

(** val cdns_text : n list **)

let cdns_text =
  (Npos (XI (XI (XO (XO (XO (XO XH))))))) :: ((Npos (XI (XO (XI (XI (XO
    XH)))))) :: ((Npos (XO (XO (XI (XO (XO (XO XH))))))) :: ((Npos (XO (XI
    (XI (XI (XO (XO XH))))))) :: ((Npos (XI (XI (XO (XO (XI (XO
    XH))))))) :: []))))

(** val header_ops : exporter -> eop list **)

let header_ops x =
  app ((OArr (Npos (XI XH))) :: ((OText cdns_text) :: []))
    (app (write_val filePreamble (preamble_val x)) (OIndefArr :: []))

(** val with_enc : exporter -> enc -> n -> exporter **)

let with_enc x e w =
  { x_major = x.x_major; x_minor = x.x_minor; x_private = x.x_private;
    x_params = x.x_params; x_blk = x.x_blk; x_active = x.x_active;
    x_written = w; x_enc = e; x_closed = x.x_closed; x_done = x.x_done }

(** val with_blk : exporter -> blk -> exporter **)

let with_blk x b =
  { x_major = x.x_major; x_minor = x.x_minor; x_private = x.x_private;
    x_params = x.x_params; x_blk = b; x_active = x.x_active; x_written =
    x.x_written; x_enc = x.x_enc; x_closed = x.x_closed; x_done = x.x_done }

(** val write_block_ext : exporter -> blk -> exporter * n **)

let write_block_ext x b =
  if N.eqb (item_count b) N0
  then (x, N0)
  else let ops =
         app (if N.eqb x.x_written N0 then header_ops x else [])
           (write_val block (blk_val b))
       in
       let (e', r) = enc_run x.x_enc ops in
       let x' = with_enc x e' (N.add x.x_written (Npos XH)) in
       ({ x_major = x'.x_major; x_minor = x'.x_minor; x_private =
       x'.x_private; x_params = x'.x_params; x_blk = x'.x_blk; x_active =
       x'.x_active; x_written = x'.x_written; x_enc = x'.x_enc; x_closed =
       x'.x_closed; x_done = (app x.x_done (b :: [])) }, r)

(** val write_block : exporter -> exporter * n **)

let write_block x =
  let (x1, r) = write_block_ext x x.x_blk in
  let b = blk_clear x1.x_blk in
  let (b', _) = blk_set_bp b (nth_bp x1.x_params x1.x_active) x1.x_active in
  ((with_blk x1 b'), r)

(** val buffer : (blk -> blk * bool) -> exporter -> exporter * n **)

let buffer add0 x =
  let (b', full) = add0 x.x_blk in
  let x1 = with_blk x b' in if full then write_block x1 else (x1, N0)

(** val buffer_qr :
    val0 option list -> val0 option -> exporter -> exporter * n **)

let buffer_qr gr st =
  buffer (add_qr gr st)

(** val buffer_aec :
    val0 option list -> val0 option -> exporter -> exporter * n **)

let buffer_aec ga st =
  buffer (add_aec ga st)

(** val buffer_mm :
    val0 option list -> val0 option -> exporter -> exporter * n **)

let buffer_mm gm st =
  buffer (add_mm gm st)

(** val rotate : bool -> exporter -> exporter * n **)

let rotate export x =
  let (x1, r1) = if export then write_block x else (x, N0) in
  let (e2, r2) =
    if N.ltb N0 x1.x_written
    then enc_run x1.x_enc (OBreak :: [])
    else (x1.x_enc, N0)
  in
  let out = stream (flush e2) in
  ({ x_major = x1.x_major; x_minor = x1.x_minor; x_private = x1.x_private;
  x_params = x1.x_params; x_blk = x1.x_blk; x_active = x1.x_active;
  x_written = N0; x_enc = enc_init; x_closed = (out :: x1.x_closed); x_done =
  x1.x_done }, (N.add r1 r2))

(** val destroy : exporter -> n list **)

let destroy x =
  let (e2, _) =
    if N.ltb N0 x.x_written
    then enc_run x.x_enc (OBreak :: [])
    else (x.x_enc, N0)
  in
  stream (flush e2)

(** val add_block_parameters : val0 -> exporter -> exporter * n **)

let add_block_parameters bp x =
  ({ x_major = x.x_major; x_minor = x.x_minor; x_private = x.x_private;
    x_params = (app x.x_params (bp :: [])); x_blk = x.x_blk; x_active =
    x.x_active; x_written = x.x_written; x_enc = x.x_enc; x_closed =
    x.x_closed; x_done = x.x_done }, (N.of_nat (length x.x_params)))

(** val set_active : n -> exporter -> exporter * bool **)

let set_active i x =
  if N.leb (N.of_nat (length x.x_params)) i
  then (x, false)
  else ({ x_major = x.x_major; x_minor = x.x_minor; x_private = x.x_private;
         x_params = x.x_params; x_blk = x.x_blk; x_active = i; x_written =
         x.x_written; x_enc = x.x_enc; x_closed = x.x_closed; x_done =
         x.x_done }, true)

(** val upper : n -> n **)

let upper b =
  if (&&) (N.leb (Npos (XI (XO (XO (XO (XO (XI XH))))))) b)
       (N.leb b (Npos (XO (XI (XO (XI (XI (XI XH))))))))
  then N.sub b (Npos (XO (XO (XO (XO (XO XH))))))
  else b

(** val read_file_header : nat -> (val0 * (n * bool)) prog **)

let read_file_header g =
  bind read_array_start (fun st ->
    if (&&) (negb (N.eqb (fst st) (Npos (XI XH)))) (negb (snd st))
    then Throw EDec
    else bind (read_textstring g) (fun id ->
           if negb (list_eqb N.eqb (map upper id) cdns_text)
           then Throw EDec
           else bind (read_val g filePreamble) (fun pre ->
                  bind read_array_start (fun bl -> Ret (pre, bl)))))

type rblock = { r_earliest : val0; r_bpi : val0 option; r_bp : bparams;
                r_stats : val0 option; r_tables : val0 option list;
                r_qrs : val0 list; r_aecs : (val0 * n) list; r_mms : 
                val0 list }

(** val params_of : val0 -> val0 list **)

let params_of = function
| VR fs ->
  (match fs with
   | [] -> []
   | _ :: l ->
     (match l with
      | [] -> []
      | _ :: l0 ->
        (match l0 with
         | [] -> []
         | _ :: l1 ->
           (match l1 with
            | [] -> []
            | o2 :: l2 ->
              (match o2 with
               | Some v ->
                 (match v with
                  | VL ps -> (match l2 with
                              | [] -> ps
                              | _ :: _ -> [])
                  | _ -> [])
               | None -> [])))))
| _ -> []

(** val resolve_time : ts -> n -> val0 -> val0 option **)

let resolve_time earliest0 tps it = match it with
| VR fs ->
  (match fs with
   | [] -> Some it
   | o :: rest0 ->
     (match o with
      | Some v ->
        (match v with
         | VN off ->
           (match add_time_offset earliest0 (to_i0 off) (Z.of_N tps) with
            | TOk t -> Some (VR ((Some (ts_val t)) :: rest0))
            | _ -> None)
         | _ -> Some it)
      | None -> Some it))
| _ -> Some it

(** val resolve_all : ts -> n -> val0 list -> val0 list option **)

let rec resolve_all earliest0 tps = function
| [] -> Some []
| it :: l' ->
  (match resolve_time earliest0 tps it with
   | Some a ->
     (match resolve_all earliest0 tps l' with
      | Some b -> Some (a :: b)
      | None -> None)
   | None -> None)

(** val aec_merge : (val0 * n) list -> val0 -> n -> (val0 * n) list **)

let rec aec_merge l k c =
  match l with
  | [] -> (k, c) :: []
  | p :: l' ->
    let (k', c') = p in
    if val_eqb k' k
    then (k', (N.modulo (N.add c' c) two64)) :: l'
    else (k', c') :: (aec_merge l' k c)

(** val aec_key : val0 -> val0 * n **)

let aec_key a = match a with
| VR fs ->
  (match fs with
   | [] -> (a, N0)
   | t :: l ->
     (match l with
      | [] -> (a, N0)
      | c :: l0 ->
        (match l0 with
         | [] -> (a, N0)
         | i :: l1 ->
           (match l1 with
            | [] -> (a, N0)
            | f :: l2 ->
              (match l2 with
               | [] -> (a, N0)
               | o :: l3 ->
                 (match o with
                  | Some v ->
                    (match v with
                     | VN n0 ->
                       (match l3 with
                        | [] ->
                          ((VR (t :: (c :: (i :: (f :: ((Some (VN
                            N0)) :: [])))))), n0)
                        | _ :: _ -> (a, N0))
                     | _ -> (a, N0))
                  | None -> (a, N0)))))))
| _ -> (a, N0)

(** val lst : val0 option -> val0 list **)

let lst = function
| Some v -> (match v with
             | VL l -> l
             | _ -> [])
| None -> []

(** val block_of_val : val0 list -> val0 -> rblock prog **)

let block_of_val params = function
| VR fs ->
  (match fs with
   | [] -> Throw EDec
   | o :: l ->
     (match o with
      | Some v0 ->
        (match v0 with
         | VR fs0 ->
           (match fs0 with
            | [] -> Throw EDec
            | o0 :: l0 ->
              (match o0 with
               | Some et ->
                 (match l0 with
                  | [] -> Throw EDec
                  | bpi :: l1 ->
                    (match l1 with
                     | [] ->
                       (match l with
                        | [] -> Throw EDec
                        | stats :: l2 ->
                          (match l2 with
                           | [] -> Throw EDec
                           | tbs :: l3 ->
                             (match l3 with
                              | [] -> Throw EDec
                              | qrs :: l4 ->
                                (match l4 with
                                 | [] -> Throw EDec
                                 | aecs :: l5 ->
                                   (match l5 with
                                    | [] -> Throw EDec
                                    | mms :: l6 ->
                                      (match l6 with
                                       | [] ->
                                         (match params with
                                          | [] -> Throw EDec
                                          | _ :: _ ->
                                            let idx =
                                              match bpi with
                                              | Some v1 ->
                                                (match v1 with
                                                 | VN i -> i
                                                 | _ -> N0)
                                              | None -> N0
                                            in
                                            if N.leb
                                                 (N.of_nat (length params))
                                                 idx
                                            then Throw EDec
                                            else let bp = nth_bp params idx in
                                                 (match ts_of_val et with
                                                  | Some e ->
                                                    (match resolve_all e
                                                             bp.bp_tps
                                                             (lst qrs) with
                                                     | Some q ->
                                                       (match resolve_all e
                                                                bp.bp_tps
                                                                (lst mms) with
                                                        | Some m ->
                                                          Ret { r_earliest =
                                                            et; r_bpi = bpi;
                                                            r_bp = bp;
                                                            r_stats = stats;
                                                            r_tables =
                                                            (match tbs with
                                                             | Some v1 ->
                                                               (match v1 with
                                                                | VR l7 -> l7
                                                                | _ -> [])
                                                             | None -> []);
                                                            r_qrs = q;
                                                            r_aecs =
                                                            (fold_left
                                                              (fun acc a ->
                                                              let (k, c) =
                                                                aec_key a
                                                              in
                                                              aec_merge acc k
                                                                c) (lst aecs)
                                                              []); r_mms = m }
                                                        | None -> Throw ERun)
                                                     | None -> Throw ERun)
                                                  | None -> Throw EDec))
                                       | _ :: _ -> Throw EDec))))))
                     | _ :: _ -> Throw EDec))
               | None -> Throw EDec))
         | _ -> Throw EDec)
      | None -> Throw EDec))
| _ -> Throw EDec

(** val read_block_body : nat -> val0 list -> rblock prog **)

let read_block_body g params =
  bind (read_val g block) (fun v -> block_of_val params v)

type rstate = { rs_pre : val0; rs_count : n; rs_read : n; rs_indef : bool }

(** val reader_open : nat -> rstate prog **)

let reader_open g =
  bind (read_file_header g) (fun h -> Ret { rs_pre = (fst h); rs_count =
    (fst (snd h)); rs_read = N0; rs_indef = (snd (snd h)) })

(** val reader_next : nat -> rstate -> (rblock option * rstate) prog **)

let reader_next g s =
  if s.rs_indef
  then bind peek_type (fun pk ->
         match pk with
         | Some _ ->
           bind (read_block_body g (params_of s.rs_pre)) (fun b -> Ret ((Some
             b), { rs_pre = s.rs_pre; rs_count = s.rs_count; rs_read =
             (N.add s.rs_read (Npos XH)); rs_indef = true }))
         | None ->
           bind read_break (fun _ -> Ret (None, { rs_pre = s.rs_pre;
             rs_count = s.rs_read; rs_read = s.rs_read; rs_indef = false })))
  else if N.eqb s.rs_read s.rs_count
       then Ret (None, s)
       else bind (read_block_body g (params_of s.rs_pre)) (fun b -> Ret
              ((Some b), { rs_pre = s.rs_pre; rs_count = s.rs_count;
              rs_read = (N.add s.rs_read (Npos XH)); rs_indef = false }))

(** val read_blocks :
    nat -> nat -> rstate -> rblock list -> rblock list prog **)

let rec read_blocks g fuel s racc =
  match fuel with
  | O -> Throw EFuel
  | S f ->
    bind (reader_next g s) (fun r ->
      match fst r with
      | Some b -> read_blocks g f (snd r) (b :: racc)
      | None -> Ret (frev racc))

(** val read_file : nat -> (val0 * rblock list) prog **)

let read_file g =
  bind (reader_open g) (fun s ->
    bind (read_blocks g g s []) (fun bs -> Ret (s.rs_pre, bs)))

(** val tl_get :
    val0 option list -> nat -> val0 option -> val0 option option **)

let tl_get tbs i = function
| Some v ->
  (match v with
   | VN n0 ->
     (match nth_error (lst (nth_o tbs i)) (N.to_nat n0) with
      | Some v0 -> Some (Some v0)
      | None -> None)
   | _ -> None)
| None -> Some None

(** val obind : 'a1 option -> ('a1 -> 'a2 option) -> 'a2 option **)

let obind o f =
  match o with
  | Some a -> f a
  | None -> None

(** val fields_of : val0 option -> val0 option list **)

let fields_of = function
| Some v -> (match v with
             | VR l -> l
             | _ -> [])
| None -> []

(** val gen_qs : val0 option list -> val0 list -> val0 list option **)

let rec gen_qs tbs = function
| [] -> Some []
| ix :: r ->
  obind (tl_get tbs (S (S (S (S (S O))))) (Some ix)) (fun q ->
    let qf = fields_of q in
    obind (tl_get tbs (S (S O)) (nth_o qf O)) (fun nm ->
      obind (tl_get tbs (S O) (nth_o qf (S O))) (fun ct ->
        obind (gen_qs tbs r) (fun rest0 -> Some ((VR
          (nm :: (ct :: (None :: (None :: []))))) :: rest0)))))

(** val gen_rrs : val0 option list -> val0 list -> val0 list option **)

let rec gen_rrs tbs = function
| [] -> Some []
| ix :: r ->
  obind (tl_get tbs (S (S (S (S (S (S (S O))))))) (Some ix)) (fun q ->
    let qf = fields_of q in
    obind (tl_get tbs (S (S O)) (nth_o qf O)) (fun nm ->
      obind (tl_get tbs (S O) (nth_o qf (S O))) (fun ct ->
        obind (tl_get tbs (S (S O)) (nth_o qf (S (S (S O))))) (fun rd ->
          obind (gen_rrs tbs r) (fun rest0 -> Some ((VR
            (nm :: (ct :: ((nth_o qf (S (S O))) :: (rd :: []))))) :: rest0))))))

(** val gen_qlist : val0 option list -> val0 option -> val0 option option **)

let gen_qlist tbs ix = match ix with
| Some _ ->
  obind (tl_get tbs (S (S (S (S O)))) ix) (fun l ->
    obind (gen_qs tbs (lst l)) (fun qs -> Some (Some (VL qs))))
| None -> Some None

(** val gen_rrlist : val0 option list -> val0 option -> val0 option option **)

let gen_rrlist tbs ix = match ix with
| Some _ ->
  obind (tl_get tbs (S (S (S (S (S (S O)))))) ix) (fun l ->
    obind (gen_rrs tbs (lst l)) (fun rs -> Some (Some (VL rs))))
| None -> Some None

(** val gen_qr : val0 option list -> val0 -> val0 option **)

let gen_qr tbs it =
  let s = nth_o (fields_of (Some it)) in
  obind (tl_get tbs O (s (S O))) (fun g1 ->
    obind (tl_get tbs (S (S (S O))) (s (S (S (S (S O)))))) (fun sg ->
      let q = nth_o (fields_of sg) in
      obind (tl_get tbs O (q O)) (fun g4 ->
        obind (tl_get tbs (S O) (q (S (S (S (S (S (S (S (S O))))))))))
          (fun g12 ->
          obind
            (tl_get tbs (S (S O))
              (q (S (S (S (S (S (S (S (S (S (S (S (S (S (S (S
                O))))))))))))))))) (fun g19 ->
            obind (tl_get tbs (S (S O)) (s (S (S (S (S (S (S (S O)))))))))
              (fun g23 ->
              let rp =
                nth_o
                  (fields_of (s (S (S (S (S (S (S (S (S (S (S O))))))))))))
              in
              obind (tl_get tbs (S (S O)) (rp O)) (fun g26 ->
                let qe =
                  nth_o
                    (fields_of
                      (s (S (S (S (S (S (S (S (S (S (S (S O)))))))))))))
                in
                obind (gen_qlist tbs (qe O)) (fun g28 ->
                  obind (gen_rrlist tbs (qe (S O))) (fun g29 ->
                    obind (gen_rrlist tbs (qe (S (S O)))) (fun g30 ->
                      obind (gen_rrlist tbs (qe (S (S (S O))))) (fun g31 ->
                        let re =
                          nth_o
                            (fields_of
                              (s (S (S (S (S (S (S (S (S (S (S (S (S
                                O))))))))))))))
                        in
                        obind (gen_qlist tbs (re O)) (fun g32 ->
                          obind (gen_rrlist tbs (re (S O))) (fun g33 ->
                            obind (gen_rrlist tbs (re (S (S O)))) (fun g34 ->
                              obind (gen_rrlist tbs (re (S (S (S O)))))
                                (fun g35 -> Some (VR
                                ((s O) :: (g1 :: ((s (S (S O))) :: ((s (S (S
                                                                    (S O)))) :: (g4 :: (
                                (q (S O)) :: ((q (S (S O))) :: ((q (S (S (S
                                                                  O)))) :: (
                                (q (S (S (S (S O))))) :: ((q (S (S (S (S (S
                                                            O)))))) :: (
                                (q (S (S (S (S (S (S O))))))) :: ((q (S (S (S
                                                                    (S (S (S
                                                                    (S
                                                                    O)))))))) :: (g12 :: (
                                (q (S (S (S (S (S (S (S (S (S O)))))))))) :: (
                                (q (S (S (S (S (S (S (S (S (S (S O))))))))))) :: (
                                (q (S (S (S (S (S (S (S (S (S (S (S
                                  O)))))))))))) :: ((q (S (S (S (S (S (S (S
                                                      (S (S (S (S (S
                                                      O))))))))))))) :: (
                                (q (S (S (S (S (S (S (S (S (S (S (S (S (S
                                  O)))))))))))))) :: ((q (S (S (S (S (S (S (S
                                                        (S (S (S (S (S (S (S
                                                        O))))))))))))))) :: (g19 :: (
                                (q (S (S (S (S (S (S (S (S (S (S (S (S (S (S
                                  (S (S O))))))))))))))))) :: ((s (S (S (S (S
                                                                 (S O)))))) :: (
                                (s (S (S (S (S (S (S O))))))) :: (g23 :: (
                                (s (S (S (S (S (S (S (S (S O))))))))) :: (
                                (s (S (S (S (S (S (S (S (S (S O)))))))))) :: (g26 :: (
                                (rp (S O)) :: (g28 :: (g29 :: (g30 :: (g31 :: (g32 :: (g33 :: (g34 :: (g35 :: (
                                (s (S (S (S (S (S (S (S (S (S (S (S (S (S
                                  O)))))))))))))) :: ((s (S (S (S (S (S (S (S
                                                        (S (S (S (S (S (S (S
                                                        O))))))))))))))) :: (
                                (s (S (S (S (S (S (S (S (S (S (S (S (S (S (S
                                  (S O)))))))))))))))) :: [])))))))))))))))))))))))))))))))))))))))))))))))))))))))

(** val gen_aec : val0 option list -> (val0 * n) -> val0 option **)

let gen_aec tbs kc =
  let k = nth_o (fields_of (Some (fst kc))) in
  obind (tl_get tbs O (k (S (S O)))) (fun ip ->
    match ip with
    | Some _ ->
      Some (VR ((k O) :: ((k (S O)) :: ((k (S (S (S O)))) :: (ip :: ((Some
        (VN (snd kc))) :: []))))))
    | None -> None)

(** val gen_mm : val0 option list -> val0 -> val0 option **)

let gen_mm tbs it =
  let s = nth_o (fields_of (Some it)) in
  obind (tl_get tbs O (s (S O))) (fun g1 ->
    obind (tl_get tbs (S (S (S (S (S (S (S (S O)))))))) (s (S (S (S O)))))
      (fun md ->
      let d = nth_o (fields_of md) in
      obind (tl_get tbs O (d O)) (fun g3 -> Some (VR
        ((s O) :: (g1 :: ((s (S (S O))) :: (g3 :: ((d (S O)) :: ((d (S (S O))) :: (
        (d (S (S (S O)))) :: [])))))))))))

type xop =
| XQr of val0 option list * val0 option
| XAec of val0 option list * val0 option
| XMm of val0 option list * val0 option
| XWb
| XRot of bool
| XAddBp of val0
| XSetBp of n

(** val xstep : exporter -> xop -> exporter * n **)

let xstep x = function
| XQr (gr, st) -> buffer_qr gr st x
| XAec (ga, st) -> buffer_aec ga st x
| XMm (gm, st) -> buffer_mm gm st x
| XWb -> write_block x
| XRot e -> rotate e x
| XAddBp bp -> add_block_parameters bp x
| XSetBp i ->
  let (x', b) = set_active i x in (x', (if b then Npos XH else N0))

(** val xrun : exporter -> xop list -> exporter **)

let xrun x ops =
  fold_left (fun x0 o -> fst (xstep x0 o)) ops x

(** val tbs_of_tables : tables -> val0 option list **)

let tbs_of_tables tb =
  (Some (VL tb.t_ip)) :: ((Some (VL tb.t_ct)) :: ((Some (VL
    tb.t_nr)) :: ((Some (VL tb.t_sig)) :: ((Some (VL tb.t_qlist)) :: ((Some
    (VL tb.t_qrr)) :: ((Some (VL tb.t_rrlist)) :: ((Some (VL
    tb.t_rr)) :: ((Some (VL tb.t_mmd)) :: []))))))))

(** val tables_of_tbs : val0 option list -> tables **)

let tables_of_tbs l =
  { t_ip = (lst (nth_o l O)); t_ct = (lst (nth_o l (S O))); t_nr =
    (lst (nth_o l (S (S O)))); t_sig = (lst (nth_o l (S (S (S O)))));
    t_qlist = (lst (nth_o l (S (S (S (S O)))))); t_qrr =
    (lst (nth_o l (S (S (S (S (S O))))))); t_rrlist =
    (lst (nth_o l (S (S (S (S (S (S O)))))))); t_rr =
    (lst (nth_o l (S (S (S (S (S (S (S O))))))))); t_mmd =
    (lst (nth_o l (S (S (S (S (S (S (S (S O)))))))))) }

(** val blk_of_rb : rblock -> blk **)

let blk_of_rb rb =
  { b_earliest =
    (match ts_of_val rb.r_earliest with
     | Some t -> t
     | None -> ts0); b_bpi = (vn rb.r_bpi); b_bp = rb.r_bp; b_stats =
    rb.r_stats; b_tb = (tables_of_tbs rb.r_tables); b_qrs = rb.r_qrs;
    b_aecs = rb.r_aecs; b_mms = rb.r_mms }

type path =
| Part of n
| Final of n
| Fd of n

type event =
| EOpen of path
| EWrite of path * n list
| EClose of path
| ERename of n

type wop =
| WWrite of n list
| WRotate of n

(** val named_step : n -> wop -> n * event list **)

let named_step cur = function
| WWrite bs -> (cur, ((EWrite ((Part cur), bs)) :: []))
| WRotate n0 ->
  (n0, ((EClose (Part cur)) :: ((ERename cur) :: ((EOpen (Part n0)) :: []))))

(** val named_destroy : n -> event list **)

let named_destroy cur =
  (EClose (Part cur)) :: ((ERename cur) :: [])

(** val fd_step : n -> wop -> n * event list **)

let fd_step cur = function
| WWrite bs -> (cur, ((EWrite ((Fd cur), bs)) :: []))
| WRotate n0 -> (n0, ((EClose (Fd cur)) :: []))

(** val fd_destroy : n -> event list **)

let fd_destroy cur =
  (EClose (Fd cur)) :: []

(** val run_steps :
    (n -> wop -> n * event list) -> (n -> event list) -> n -> wop list ->
    bool -> event list **)

let rec run_steps step fin cur ops destroyed =
  match ops with
  | [] -> if destroyed then fin cur else []
  | o :: r ->
    let (cur', evs) = step cur o in
    app evs (run_steps step fin cur' r destroyed)

(** val named_trace : n -> wop list -> bool -> event list **)

let named_trace n0 ops destroyed =
  (EOpen (Part n0)) :: (run_steps named_step named_destroy n0 ops destroyed)

(** val fd_trace : n -> wop list -> bool -> event list **)

let fd_trace n0 ops destroyed =
  run_steps fd_step fd_destroy n0 ops destroyed

(** val outputs_of : n -> n list -> wop list -> bool -> (n * n list) list **)

let rec outputs_of cur acc ops destroyed =
  match ops with
  | [] -> if destroyed then (cur, acc) :: [] else []
  | w :: r ->
    (match w with
     | WWrite bs -> outputs_of cur (app acc bs) r destroyed
     | WRotate n0 -> (cur, acc) :: (outputs_of n0 [] r destroyed))

(** val czip :
    'a1 -> ('a1 -> n list -> 'a1 * n list) -> ('a1 -> n list) -> 'a1 -> wop
    list -> bool -> wop list **)

let rec czip cinit crun cfinish s ops destroyed =
  match ops with
  | [] -> if destroyed then (WWrite (cfinish s)) :: [] else []
  | w :: r ->
    (match w with
     | WWrite bs ->
       let (s', out) = crun s bs in
       (WWrite out) :: (czip cinit crun cfinish s' r destroyed)
     | WRotate n0 ->
       (WWrite (cfinish s)) :: ((WRotate
         n0) :: (czip cinit crun cfinish cinit r destroyed)))

type wcall =
| CWrite of n list
| CRotate of n

type outcome =
| Done
| Threw

type fout = { stored0 : n list; intended : n list; room : n }

(** val fout_new : n -> fout **)

let fout_new budget =
  { stored0 = []; intended = []; room = budget }

(** val fd_write : fout -> n list -> fout * outcome **)

let fd_write o bs =
  let n0 = N.of_nat (length bs) in
  if N.leb n0 o.room
  then ({ stored0 = (app o.stored0 bs); intended = (app o.intended bs);
         room = (N.sub o.room n0) }, Done)
  else ({ stored0 = (app o.stored0 (firstn (N.to_nat o.room) bs)); intended =
         (app o.intended bs); room = N0 }, Threw)

type nout = { n_out : fout; n_bad : bool }

(** val named_write : nout -> n list -> nout * outcome **)

let named_write o bs =
  let f = o.n_out in
  let n0 = N.of_nat (length bs) in
  if o.n_bad
  then ({ n_out = { stored0 = f.stored0; intended = (app f.intended bs);
         room = f.room }; n_bad = true }, Done)
  else if N.leb n0 f.room
       then ({ n_out = { stored0 = (app f.stored0 bs); intended =
              (app f.intended bs); room = (N.sub f.room n0) }; n_bad =
              false }, Done)
       else ({ n_out = { stored0 =
              (app f.stored0 (firstn (N.to_nat f.room) bs)); intended =
              (app f.intended bs); room = N0 }; n_bad = true }, Done)

(** val fd_calls : fout -> wcall list -> (fout list * fout) * outcome list **)

let rec fd_calls cur = function
| [] -> (([], cur), [])
| w :: r ->
  (match w with
   | CWrite bs ->
     let (cur', oc) = fd_write cur bs in
     let (p, ocs) = fd_calls cur' r in (p, (oc :: ocs))
   | CRotate b ->
     let (p, ocs) = fd_calls (fout_new b) r in
     let (closed, last) = p in (((cur :: closed), last), (Done :: ocs)))

(** val named_calls :
    nout -> wcall list -> (fout list * fout) * outcome list **)

let rec named_calls cur = function
| [] -> (([], cur.n_out), [])
| w :: r ->
  (match w with
   | CWrite bs ->
     let (cur', oc) = named_write cur bs in
     let (p, ocs) = named_calls cur' r in (p, (oc :: ocs))
   | CRotate b ->
     let (p, ocs) = named_calls { n_out = (fout_new b); n_bad = false } r in
     let (closed, last) = p in (((cur.n_out :: closed), last), (Done :: ocs)))

(** val lost : fout -> bool **)

let lost o =
  negb (N.eqb (N.of_nat (length o.stored0)) (N.of_nat (length o.intended)))

(** val enc_rotate_fd : fout -> n list -> n -> (fout * n list) * outcome **)

let enc_rotate_fd cur staged budget =
  match staged with
  | [] -> (((fout_new budget), []), Done)
  | _ :: _ ->
    let (cur', oc) = fd_write cur staged in
    (match oc with
     | Done -> (((fout_new budget), []), Done)
     | Threw -> ((cur', staged), Threw))

type minput =
| MBad of n
| MFile of n * val0 * rblock list

(** val oval_eqb : val0 option -> val0 option -> bool **)

let oval_eqb a b =
  match a with
  | Some x -> (match b with
               | Some y -> val_eqb x y
               | None -> false)
  | None -> (match b with
             | Some _ -> false
             | None -> true)

(** val version_of : val0 -> (val0 option * val0 option) * val0 option **)

let version_of = function
| VR fs ->
  (match fs with
   | [] -> ((None, None), None)
   | a :: l ->
     (match l with
      | [] -> ((None, None), None)
      | b :: l0 ->
        (match l0 with
         | [] -> ((None, None), None)
         | c :: l1 ->
           (match l1 with
            | [] -> ((None, None), None)
            | _ :: l2 ->
              (match l2 with
               | [] -> ((a, b), c)
               | _ :: _ -> ((None, None), None))))))
| _ -> ((None, None), None)

(** val same_version : val0 -> val0 -> bool **)

let same_version p q =
  let (p0, c) = version_of p in
  let (a, b) = p0 in
  let (p1, c') = version_of q in
  let (a', b') = p1 in
  (&&) ((&&) (oval_eqb a a') (oval_eqb b b')) (oval_eqb c c')

type pass1 = { p_pre : val0 option; p_params : val0 list; p_off : (n * n) list }

(** val p1_step : pass1 -> minput -> pass1 **)

let p1_step s = function
| MBad _ -> s
| MFile (name, pre, _) ->
  (match s.p_pre with
   | Some first ->
     if same_version pre first
     then { p_pre = (Some first); p_params =
            (app s.p_params (params_of pre)); p_off = ((name,
            (N.of_nat (length s.p_params))) :: s.p_off) }
     else s
   | None ->
     { p_pre = (Some pre); p_params = (params_of pre); p_off = ((name,
       N0) :: s.p_off) })

(** val run_pass1 : minput list -> pass1 **)

let run_pass1 ins =
  fold_left p1_step ins { p_pre = None; p_params = []; p_off = [] }

(** val lookup_off : (n * n) list -> n -> n option **)

let rec lookup_off l name =
  match l with
  | [] -> None
  | p :: r ->
    let (n0, o) = p in if N.eqb n0 name then Some o else lookup_off r name

(** val default_preamble : val0 **)

let default_preamble =
  VR ((Some (VN (Npos XH))) :: ((Some (VN N0)) :: ((Some (VN (Npos
    XH))) :: ((Some (VL ((VR ((Some (VR ((Some (VN (Npos (XO (XO (XO (XO (XO
    (XO (XI (XO (XO (XI (XO (XO (XO (XO (XI (XO (XI (XI (XI
    XH)))))))))))))))))))))) :: ((Some (VN (Npos (XO (XO (XO (XO (XI (XO (XO
    (XO (XI (XI (XI (XO (XO XH)))))))))))))))) :: ((Some (VR ((Some (VN (Npos
    (XI (XI (XI (XI (XI (XI (XI (XI (XI (XI (XI (XI (XI (XI (XI (XI (XI
    XH)))))))))))))))))))) :: ((Some (VN (Npos (XI (XI (XI (XI (XI (XI (XI
    (XI (XI (XI (XI (XI (XI (XI (XI (XI XH))))))))))))))))))) :: ((Some (VN
    (Npos (XI XH)))) :: ((Some (VN (Npos (XI XH)))) :: [])))))) :: ((Some (VL
    ((VN N0) :: ((VN (Npos XH)) :: ((VN (Npos (XO XH))) :: ((VN (Npos (XO (XO
    XH)))) :: ((VN (Npos (XI (XO XH)))) :: []))))))) :: ((Some (VL
    [])) :: (None :: (None :: (None :: (None :: (None :: (None :: (None :: [])))))))))))))) :: (None :: []))) :: []))) :: []))))

(** val merged_preamble : pass1 -> val0 **)

let merged_preamble s =
  match s.p_pre with
  | Some v ->
    (match v with
     | VR fs ->
       (match fs with
        | [] -> default_preamble
        | a :: l ->
          (match l with
           | [] -> default_preamble
           | b :: l0 ->
             (match l0 with
              | [] -> default_preamble
              | c :: l1 ->
                (match l1 with
                 | [] -> default_preamble
                 | _ :: l2 ->
                   (match l2 with
                    | [] ->
                      VR (a :: (b :: (c :: ((Some (VL s.p_params)) :: []))))
                    | _ :: _ -> default_preamble)))))
     | _ -> default_preamble)
  | None -> default_preamble

(** val remap : n -> rblock -> blk **)

let remap off rb =
  let b = blk_of_rb rb in
  { b_earliest = b.b_earliest; b_bpi = (N.add off b.b_bpi); b_bp = b.b_bp;
  b_stats = b.b_stats; b_tb = b.b_tb; b_qrs = b.b_qrs; b_aecs = b.b_aecs;
  b_mms = b.b_mms }

(** val p2_step : (n * n) list -> exporter -> minput -> exporter **)

let p2_step offs x = function
| MBad _ -> x
| MFile (name, _, blocks) ->
  (match lookup_off offs name with
   | Some off ->
     fold_left (fun x0 rb -> fst (write_block_ext x0 (remap off rb))) blocks x
   | None -> x)

(** val merge_run : minput list -> exporter **)

let merge_run ins =
  let s = run_pass1 ins in
  fold_left (p2_step s.p_off) ins (x_new (merged_preamble s))

(** val merge_bytes : minput list -> n list **)

let merge_bytes ins =
  destroy (merge_run ins)

(** val count_triple : rblock -> (n * n) * n **)

let count_triple rb =
  (((N.of_nat (length rb.r_qrs)), (N.of_nat (length rb.r_aecs))),
    (N.of_nat (length rb.r_mms)))

(** val itemcount_blocks : rblock list -> ((n * n) * n) list **)

let itemcount_blocks blocks =
  map count_triple blocks

(** val itemcount_total : rblock list -> (n * n) * n **)

let itemcount_total blocks =
  fold_left (fun pat rb ->
    let (y, c) = pat in
    let (a, b) = y in
    let (p, z0) = count_triple rb in
    let (x, y0) = p in (((N.add a x), (N.add b y0)), (N.add c z0))) blocks
    ((N0, N0), N0)

(** val exp_q : val0 -> val0 **)

let exp_q g =
  VR ((Some (oval (rr_name g))) :: ((Some
    (oval (rr_ct g))) :: (None :: (None :: []))))

(** val exp_rr : n -> val0 -> val0 **)

let exp_rr hrr g =
  VR ((Some (oval (rr_name g))) :: ((Some
    (oval (rr_ct g))) :: ((bit hrr N0 (rr_ttl g)) :: ((bit hrr (Npos XH)
                                                        (rr_rdata g)) :: []))))

(** val exp_qsec : n -> n -> val0 option -> val0 option **)

let exp_qsec h b ov =
  if N.testbit h b
  then (match section ov with
        | Some gl -> Some (VL (map exp_q gl))
        | None -> None)
  else None

(** val exp_rrsec : n -> n -> n -> val0 option -> val0 option **)

let exp_rrsec hrr h b ov =
  if N.testbit h b
  then (match section ov with
        | Some gl -> Some (VL (map (exp_rr hrr) gl))
        | None -> None)
  else None

(** val sigb : bparams -> n -> val0 option -> val0 option **)

let sigb bp k ov =
  if N.testbit bp.h_qr (Npos (XO (XO XH))) then bit bp.h_sig k ov else None

(** val exp_qr : bparams -> val0 option list -> val0 option list **)

let exp_qr bp gr =
  let g = nth_o gr in
  let hq = bp.h_qr in
  let hr = bp.h_rr in
  (bit hq N0 (g O)) :: ((bit hq (Npos XH) (g (S O))) :: ((bit hq (Npos (XO
                                                           XH)) (g (S (S O)))) :: (
  (bit hq (Npos (XI XH)) (g (S (S (S O))))) :: ((sigb bp N0
                                                  (g (S (S (S (S O)))))) :: (
  (sigb bp (Npos XH) (g (S (S (S (S (S O))))))) :: ((sigb bp (Npos (XO XH))
                                                      (g (S (S (S (S (S (S
                                                        O)))))))) :: (
  (sigb bp (Npos (XI XH)) (g (S (S (S (S (S (S (S O))))))))) :: ((sigb bp
                                                                   (Npos (XO
                                                                   (XO XH)))
                                                                   (g (S (S
                                                                    (S (S (S
                                                                    (S (S (S
                                                                    O)))))))))) :: (
  (sigb bp (Npos (XI (XO XH))) (g (S (S (S (S (S (S (S (S (S O))))))))))) :: (
  (sigb bp (Npos (XO (XI XH))) (g (S (S (S (S (S (S (S (S (S (S O)))))))))))) :: (
  (sigb bp (Npos (XI (XI XH)))
    (g (S (S (S (S (S (S (S (S (S (S (S O))))))))))))) :: ((sigb bp (Npos (XO
                                                             (XO (XO XH))))
                                                             (g (S (S (S (S
                                                               (S (S (S (S (S
                                                               (S (S (S
                                                               O)))))))))))))) :: (
  (sigb bp (Npos (XI (XO (XO XH))))
    (g (S (S (S (S (S (S (S (S (S (S (S (S (S O))))))))))))))) :: ((sigb bp
                                                                    (Npos (XO
                                                                    (XI (XO
                                                                    XH))))
                                                                    (g (S (S
                                                                    (S (S (S
                                                                    (S (S (S
                                                                    (S (S (S
                                                                    (S (S (S
                                                                    O)))))))))))))))) :: (
  (sigb bp (Npos (XI (XI (XO XH))))
    (g (S (S (S (S (S (S (S (S (S (S (S (S (S (S (S O))))))))))))))))) :: (
  (sigb bp (Npos (XO (XO (XI XH))))
    (g (S (S (S (S (S (S (S (S (S (S (S (S (S (S (S (S O)))))))))))))))))) :: (
  (sigb bp (Npos (XI (XO (XI XH))))
    (g (S (S (S (S (S (S (S (S (S (S (S (S (S (S (S (S (S O))))))))))))))))))) :: (
  (sigb bp (Npos (XO (XI (XI XH))))
    (g (S (S (S (S (S (S (S (S (S (S (S (S (S (S (S (S (S (S
      O)))))))))))))))))))) :: ((sigb bp (Npos (XI (XI (XI XH))))
                                  (g (S (S (S (S (S (S (S (S (S (S (S (S (S
                                    (S (S (S (S (S (S O))))))))))))))))))))) :: (
  (sigb bp (Npos (XO (XO (XO (XO XH)))))
    (g (S (S (S (S (S (S (S (S (S (S (S (S (S (S (S (S (S (S (S (S
      O)))))))))))))))))))))) :: ((bit hq (Npos (XI (XO XH)))
                                    (g (S (S (S (S (S (S (S (S (S (S (S (S (S
                                      (S (S (S (S (S (S (S (S
                                      O))))))))))))))))))))))) :: ((bit hq
                                                                    (Npos (XO
                                                                    (XI XH)))
                                                                    (g (S (S
                                                                    (S (S (S
                                                                    (S (S (S
                                                                    (S (S (S
                                                                    (S (S (S
                                                                    (S (S (S
                                                                    (S (S (S
                                                                    (S (S
                                                                    O)))))))))))))))))))))))) :: (
  (bit hq (Npos (XI (XI XH)))
    (g (S (S (S (S (S (S (S (S (S (S (S (S (S (S (S (S (S (S (S (S (S (S (S
      O))))))))))))))))))))))))) :: ((bit hq (Npos (XO (XO (XO XH))))
                                       (g (S (S (S (S (S (S (S (S (S (S (S (S
                                         (S (S (S (S (S (S (S (S (S (S (S (S
                                         O)))))))))))))))))))))))))) :: (
  (bit hq (Npos (XI (XO (XO XH))))
    (g (S (S (S (S (S (S (S (S (S (S (S (S (S (S (S (S (S (S (S (S (S (S (S
      (S (S O))))))))))))))))))))))))))) :: ((bit hq (Npos (XO (XI (XO XH))))
                                               (g (S (S (S (S (S (S (S (S (S
                                                 (S (S (S (S (S (S (S (S (S
                                                 (S (S (S (S (S (S (S (S
                                                 O)))))))))))))))))))))))))))) :: (
  (bit hq (Npos (XO (XI (XO XH))))
    (g (S (S (S (S (S (S (S (S (S (S (S (S (S (S (S (S (S (S (S (S (S (S (S
      (S (S (S (S O))))))))))))))))))))))))))))) :: ((exp_qsec hq (Npos (XI
                                                       (XI (XO XH))))
                                                       (g (S (S (S (S (S (S
                                                         (S (S (S (S (S (S (S
                                                         (S (S (S (S (S (S (S
                                                         (S (S (S (S (S (S (S
                                                         (S
                                                         O)))))))))))))))))))))))))))))) :: (
  (exp_rrsec hr hq (Npos (XO (XO (XI XH))))
    (g (S (S (S (S (S (S (S (S (S (S (S (S (S (S (S (S (S (S (S (S (S (S (S
      (S (S (S (S (S (S O))))))))))))))))))))))))))))))) :: ((exp_rrsec hr hq
                                                               (Npos (XI (XO
                                                               (XI XH))))
                                                               (g (S (S (S (S
                                                                 (S (S (S (S
                                                                 (S (S (S (S
                                                                 (S (S (S (S
                                                                 (S (S (S (S
                                                                 (S (S (S (S
                                                                 (S (S (S (S
                                                                 (S (S
                                                                 O)))))))))))))))))))))))))))))))) :: (
  (exp_rrsec hr hq (Npos (XO (XI (XI XH))))
    (g (S (S (S (S (S (S (S (S (S (S (S (S (S (S (S (S (S (S (S (S (S (S (S
      (S (S (S (S (S (S (S (S O))))))))))))))))))))))))))))))))) :: (
  (exp_qsec hq (Npos (XI (XI (XO XH))))
    (g (S (S (S (S (S (S (S (S (S (S (S (S (S (S (S (S (S (S (S (S (S (S (S
      (S (S (S (S (S (S (S (S (S O)))))))))))))))))))))))))))))))))) :: (
  (exp_rrsec hr hq (Npos (XI (XI (XI XH))))
    (g (S (S (S (S (S (S (S (S (S (S (S (S (S (S (S (S (S (S (S (S (S (S (S
      (S (S (S (S (S (S (S (S (S (S O))))))))))))))))))))))))))))))))))) :: (
  (exp_rrsec hr hq (Npos (XO (XO (XO (XO XH)))))
    (g (S (S (S (S (S (S (S (S (S (S (S (S (S (S (S (S (S (S (S (S (S (S (S
      (S (S (S (S (S (S (S (S (S (S (S O)))))))))))))))))))))))))))))))))))) :: (
  (exp_rrsec hr hq (Npos (XI (XO (XO (XO XH)))))
    (g (S (S (S (S (S (S (S (S (S (S (S (S (S (S (S (S (S (S (S (S (S (S (S
      (S (S (S (S (S (S (S (S (S (S (S (S
      O))))))))))))))))))))))))))))))))))))) :: ((g (S (S (S (S (S (S (S (S
                                                   (S (S (S (S (S (S (S (S (S
                                                   (S (S (S (S (S (S (S (S (S
                                                   (S (S (S (S (S (S (S (S (S
                                                   (S
                                                   O))))))))))))))))))))))))))))))))))))) :: (
  (g (S (S (S (S (S (S (S (S (S (S (S (S (S (S (S (S (S (S (S (S (S (S (S (S
    (S (S (S (S (S (S (S (S (S (S (S (S (S
    O)))))))))))))))))))))))))))))))))))))) :: ((g (S (S (S (S (S (S (S (S (S
                                                  (S (S (S (S (S (S (S (S (S
                                                  (S (S (S (S (S (S (S (S (S
                                                  (S (S (S (S (S (S (S (S (S
                                                  (S (S
                                                  O))))))))))))))))))))))))))))))))))))))) :: []))))))))))))))))))))))))))))))))))))))

(** val exp_mm : val0 option list -> val0 option list **)

let exp_mm gm =
  let g = nth_o gm in
  (g O) :: ((g (S O)) :: ((g (S (S O))) :: ((g (S (S (S O)))) :: ((g (S (S (S
                                                                    (S O))))) :: (
  (g (S (S (S (S (S O)))))) :: ((g (S (S (S (S (S (S O))))))) :: []))))))

(** val exp_aec : val0 option list -> n -> val0 **)

let exp_aec ga c =
  VR ((nth_o ga O) :: ((nth_o ga (S O)) :: ((nth_o ga (S (S O))) :: ((Some
    (oval (nth_o ga (S (S (S O)))))) :: ((Some (VN c)) :: [])))))

(** val tps_of : blk -> z **)

let tps_of b =
  Z.of_N b.b_bp.bp_tps

(** val new_qr : bparams -> val0 option list -> val0 list **)

let new_qr bp gr =
  if filled (exp_qr bp gr) then (VR (exp_qr bp gr)) :: [] else []

(** val new_mm : bparams -> val0 option list -> val0 list **)

let new_mm bp gm =
  if N.testbit bp.h_other N0
  then if filled (exp_mm gm) then (VR (exp_mm gm)) :: [] else []
  else []

(** val log_qr : exporter -> xop list -> val0 list **)

let rec log_qr x = function
| [] -> []
| o :: r ->
  app (match o with
       | XQr (gr, _) -> new_qr x.x_blk.b_bp gr
       | _ -> []) (log_qr (fst (xstep x o)) r)

(** val log_mm : exporter -> xop list -> val0 list **)

let rec log_mm x = function
| [] -> []
| o :: r ->
  app (match o with
       | XMm (gm, _) -> new_mm x.x_blk.b_bp gm
       | _ -> []) (log_mm (fst (xstep x o)) r)

(** val has_tyb : ty -> val0 -> bool **)

let rec has_tyb t v =
  match t with
  | TU bits ->
    (match v with
     | VN n0 ->
       (&&) (N.ltb n0 (N.pow (Npos (XO XH)) bits))
         ((||)
           ((||)
             ((||) (N.eqb bits (Npos (XO (XO (XO XH)))))
               (N.eqb bits (Npos (XO (XO (XO (XO XH)))))))
             (N.eqb bits (Npos (XO (XO (XO (XO (XO XH))))))))
           (N.eqb bits (Npos (XO (XO (XO (XO (XO (XO XH)))))))))
     | _ -> false)
  | TI ->
    (match v with
     | VZ z0 ->
       (&&) (Z.leb (Z.opp (Z.of_N two63)) z0) (Z.ltb z0 (Z.of_N two63))
     | _ -> false)
  | TBool -> (match v with
              | VB _ -> true
              | _ -> false)
  | TTime ->
    (match v with
     | VL xs ->
       (match xs with
        | [] -> false
        | v0 :: l ->
          (match v0 with
           | VN s ->
             (match l with
              | [] -> false
              | v1 :: l0 ->
                (match v1 with
                 | VN k ->
                   (match l0 with
                    | [] -> (&&) (N.ltb s two64) (N.ltb k two64)
                    | _ :: _ -> false)
                 | _ -> false))
           | _ -> false))
     | _ -> false)
  | TArr e ->
    (match v with
     | VL xs ->
       (&&) (N.ltb (N.of_nat (length xs)) two64)
         (let rec all = function
          | [] -> true
          | x :: l' -> (&&) (has_tyb e x) (all l')
          in all xs)
     | _ -> false)
  | TIdx ->
    (match v with
     | VL xs ->
       (&&) (N.ltb (N.of_nat (length xs)) two64)
         (let rec all = function
          | [] -> true
          | x :: l' ->
            (&&)
              (match x with
               | VN n0 ->
                 N.ltb n0
                   (N.pow (Npos (XO XH)) (Npos (XO (XO (XO (XO (XO XH)))))))
               | _ -> false) (all l')
          in all xs)
     | _ -> false)
  | TMap (sk, fs) -> (match v with
                      | VR vs -> fields_tyb sk fs vs
                      | _ -> false)
  | _ ->
    (match v with
     | VS bs ->
       (&&) (N.ltb (N.of_nat (length bs)) two64)
         (forallb (fun b ->
           N.ltb b (Npos (XO (XO (XO (XO (XO (XO (XO (XO XH)))))))))) bs)
     | _ -> false)

(** val fields_tyb : bool -> fields -> val0 option list -> bool **)

and fields_tyb sk fs vs =
  match fs with
  | FNil -> (match vs with
             | [] -> true
             | _ :: _ -> false)
  | FCons (k, p, t, r) ->
    (match vs with
     | [] -> false
     | v :: vs' ->
       (&&)
         ((&&)
           (if sk
            then (&&) (Z.leb (Zneg (XO (XO (XO (XO (XO (XO (XO XH)))))))) k)
                   (Z.ltb k (Zpos (XO (XO (XO (XO (XO (XO (XO XH)))))))))
            else (&&) (Z.leb Z0 k)
                   (Z.ltb k (Zpos (XO (XO (XO (XO (XO (XO (XO (XO XH)))))))))))
           (match p with
            | MandNE ->
              (match v with
               | Some x ->
                 (&&) (has_tyb t x)
                   (negb
                     (match x with
                      | VL xs -> (match xs with
                                  | [] -> true
                                  | _ :: _ -> false)
                      | _ -> false))
               | None -> false)
            | Opt -> (match v with
                      | Some x -> has_tyb t x
                      | None -> true)
            | NonEmpty ->
              (match v with
               | Some v0 ->
                 (match v0 with
                  | VL xs -> has_tyb t (VL xs)
                  | _ -> false)
               | None -> false)
            | _ -> (match v with
                    | Some x -> has_tyb t x
                    | None -> false))) (fields_tyb sk r vs'))

(** val typed_blkb : blk -> bool **)

let typed_blkb b =
  has_tyb block (blk_val b)

(** val typed_xb : exporter -> bool **)

let typed_xb x =
  (&&) (forallb typed_blkb x.x_done) (has_tyb filePreamble (preamble_val x))

(** val good_timeb : z -> val0 option -> bool **)

let good_timeb tps = function
| Some v ->
  (match v with
   | VL xs ->
     (match xs with
      | [] -> false
      | v0 :: l ->
        (match v0 with
         | VN s ->
           (match l with
            | [] -> false
            | v1 :: l0 ->
              (match v1 with
               | VN k ->
                 (match l0 with
                  | [] ->
                    (&&)
                      ((&&) ((&&) (Z.leb (Zpos XH) tps) (Z.ltb tps m64))
                        (Z.ltb (Z.of_N k) tps))
                      (Z.ltb (Z.add (Z.mul (Z.of_N s) tps) (Z.of_N k)) m63)
                  | _ :: _ -> false)
               | _ -> false))
         | _ -> false))
   | _ -> false)
| None -> true

(** val hn_next : exporter -> n -> n **)

let hn_next x hn =
  if N.eqb x.x_written N0 then N.of_nat (length x.x_params) else hn

(** val adm1b : exporter -> n -> xop -> bool **)

let adm1b x hn = function
| XQr (gr, _) -> good_timeb (tps_of x.x_blk) (nth_o gr O)
| XMm (gm, _) -> good_timeb (tps_of x.x_blk) (nth_o gm O)
| XSetBp i ->
  (||) ((||) (N.eqb x.x_written N0) (N.ltb i hn))
    (N.leb (N.of_nat (length x.x_params)) i)
| _ -> true

(** val admb : exporter -> n -> xop list -> bool **)

let rec admb x hn = function
| [] -> true
| o :: r -> (&&) (adm1b x hn o) (admb (fst (xstep x o)) (hn_next x hn) r)

(** val dkey : val0 option list -> val0 option list **)

let dkey ga =
  (nth_o ga O) :: ((nth_o ga (S O)) :: ((nth_o ga (S (S O))) :: ((Some
    (oval (nth_o ga (S (S (S O)))))) :: [])))

(** val oval_eqb0 : val0 option -> val0 option -> bool **)

let oval_eqb0 x y =
  match x with
  | Some u -> (match y with
               | Some v -> val_eqb u v
               | None -> false)
  | None -> (match y with
             | Some _ -> false
             | None -> true)

(** val okey_eqb : val0 option list -> val0 option list -> bool **)

let okey_eqb a b =
  list_eqb oval_eqb0 a b

(** val dec_count : val0 option list -> val0 option -> n **)

let dec_count k = function
| Some v0 ->
  (match v0 with
   | VR fs ->
     (match fs with
      | [] -> N0
      | t :: l ->
        (match l with
         | [] -> N0
         | c :: l0 ->
           (match l0 with
            | [] -> N0
            | f :: l1 ->
              (match l1 with
               | [] -> N0
               | ip :: l2 ->
                 (match l2 with
                  | [] -> N0
                  | o :: l3 ->
                    (match o with
                     | Some v1 ->
                       (match v1 with
                        | VN n0 ->
                          (match l3 with
                           | [] ->
                             if okey_eqb (t :: (c :: (f :: (ip :: [])))) k
                             then n0
                             else N0
                           | _ :: _ -> N0)
                        | _ -> N0)
                     | None -> N0))))))
   | _ -> N0)
| None -> N0

(** val dec_total : val0 option list -> val0 option list -> n **)

let dec_total k l =
  fold_right (fun v a -> N.add (dec_count k v) a) N0 l

(** val new_aec : bparams -> val0 option list -> val0 option list -> n **)

let new_aec bp ga k =
  if N.testbit bp.h_other (Npos XH)
  then if okey_eqb (dkey ga) k then Npos XH else N0
  else N0

(** val log_aec : exporter -> xop list -> val0 option list -> n **)

let rec log_aec x ops k =
  match ops with
  | [] -> N0
  | o :: r ->
    N.add (match o with
           | XAec (ga, _) -> new_aec x.x_blk.b_bp ga k
           | _ -> N0) (log_aec (fst (xstep x o)) r k)

(** val log_aec_keys : exporter -> xop list -> val0 option list list **)

let rec log_aec_keys x = function
| [] -> []
| o :: r ->
  app
    (match o with
     | XAec (ga, _) ->
       if N.testbit x.x_blk.b_bp.h_other (Npos XH)
       then (dkey ga) :: []
       else []
     | _ -> []) (log_aec_keys (fst (xstep x o)) r)

(** val count_key : val0 option list -> val0 option list list -> n **)

let count_key k l =
  fold_right (fun k' a -> N.add (if okey_eqb k' k then Npos XH else N0) a) N0
    l

(** val qr_guard : bparams -> nat -> bool **)

let qr_guard bp i =
  let q = N.testbit bp.h_qr in
  let s = fun k ->
    (&&) (N.testbit bp.h_qr (Npos (XO (XO XH)))) (N.testbit bp.h_sig k)
  in
  nth i
    ((q N0) :: ((q (Npos XH)) :: ((q (Npos (XO XH))) :: ((q (Npos (XI XH))) :: (
    (s N0) :: ((s (Npos XH)) :: ((s (Npos (XO XH))) :: ((s (Npos (XI XH))) :: (
    (s (Npos (XO (XO XH)))) :: ((s (Npos (XI (XO XH)))) :: ((s (Npos (XO (XI
                                                              XH)))) :: (
    (s (Npos (XI (XI XH)))) :: ((s (Npos (XO (XO (XO XH))))) :: ((s (Npos (XI
                                                                   (XO (XO
                                                                   XH))))) :: (
    (s (Npos (XO (XI (XO XH))))) :: ((s (Npos (XI (XI (XO XH))))) :: (
    (s (Npos (XO (XO (XI XH))))) :: ((s (Npos (XI (XO (XI XH))))) :: (
    (s (Npos (XO (XI (XI XH))))) :: ((s (Npos (XI (XI (XI XH))))) :: (
    (s (Npos (XO (XO (XO (XO XH)))))) :: ((q (Npos (XI (XO XH)))) :: (
    (q (Npos (XO (XI XH)))) :: ((q (Npos (XI (XI XH)))) :: ((q (Npos (XO (XO
                                                              (XO XH))))) :: (
    (q (Npos (XI (XO (XO XH))))) :: ((q (Npos (XO (XI (XO XH))))) :: (
    (q (Npos (XO (XI (XO XH))))) :: ((q (Npos (XI (XI (XO XH))))) :: (
    (q (Npos (XO (XO (XI XH))))) :: ((q (Npos (XI (XO (XI XH))))) :: (
    (q (Npos (XO (XI (XI XH))))) :: ((q (Npos (XI (XI (XO XH))))) :: (
    (q (Npos (XI (XI (XI XH))))) :: ((q (Npos (XO (XO (XO (XO XH)))))) :: (
    (q (Npos (XI (XO (XO (XO XH)))))) :: []))))))))))))))))))))))))))))))))))))
    true

(** val nonempty : blk -> bool **)

let nonempty b =
  negb (N.eqb (item_count b) N0)

(** val pass2_blocks : (n * n) list -> minput list -> blk list **)

let pass2_blocks offs ins =
  flat_map (fun i ->
    match i with
    | MBad _ -> []
    | MFile (name, _, blocks) ->
      (match lookup_off offs name with
       | Some off -> map (remap off) blocks
       | None -> [])) ins

(** val rate_okb : z -> bool **)

let rate_okb tps =
  (&&) (Z.leb (Zpos XH) tps) (Z.ltb tps m64)

(** val instantz : ts -> z -> z **)

let instantz t tps =
  Z.add (Z.mul t.secs tps) t.ticks

(** val normalisedb : ts -> z -> bool **)

let normalisedb t tps =
  (&&) ((&&) (Z.leb Z0 t.secs) (Z.leb Z0 t.ticks)) (Z.ltb t.ticks tps)

(** val ts_okb : ts -> z -> bool **)

let ts_okb t tps =
  (&&) ((&&) (Z.leb Z0 t.secs) (Z.leb Z0 t.ticks))
    (Z.ltb (instantz t tps) m63)

(** val item_time_okb : ts -> z -> val0 -> bool **)

let item_time_okb e tps = function
| VR fs ->
  (match fs with
   | [] -> true
   | o :: _ ->
     (match o with
      | Some tv ->
        (&&) (rate_okb tps)
          (match ts_of_val tv with
           | Some t ->
             (&&) ((&&) (normalisedb t tps) (ts_okb t tps))
               (Z.leb (instantz e tps) (instantz t tps))
           | None -> false)
      | None -> true))
| _ -> true

(** val time_invb : blk -> bool **)

let time_invb b =
  let e = b.b_earliest in
  let tps = tps_of b in
  (&&)
    ((&&)
      ((&&) ((&&) (Z.leb Z0 e.secs) (Z.leb Z0 e.ticks))
        (if rate_okb tps
         then (&&) (normalisedb e tps) (ts_okb e tps)
         else true)) (forallb (item_time_okb e tps) b.b_qrs))
    (forallb (item_time_okb e tps) b.b_mms)

(** val aec_shapeb : val0 -> bool **)

let aec_shapeb = function
| VR fs ->
  (match fs with
   | [] -> false
   | _ :: l ->
     (match l with
      | [] -> false
      | _ :: l0 ->
        (match l0 with
         | [] -> false
         | _ :: l1 ->
           (match l1 with
            | [] -> false
            | _ :: l2 ->
              (match l2 with
               | [] -> false
               | o3 :: l3 ->
                 (match o3 with
                  | Some v ->
                    (match v with
                     | VN n0 ->
                       (match n0 with
                        | N0 -> (match l3 with
                                 | [] -> true
                                 | _ :: _ -> false)
                        | Npos _ -> false)
                     | _ -> false)
                  | None -> false))))))
| _ -> false

(** val nodup_valb : val0 list -> bool **)

let rec nodup_valb = function
| [] -> true
| k :: r -> (&&) (negb (existsb (val_eqb k) r)) (nodup_valb r)

(** val aec_invb : (val0 * n) list -> bool **)

let aec_invb l =
  (&&) (forallb (fun kc -> aec_shapeb (fst kc)) l) (nodup_valb (map fst l))

(** val good_blkb : blk -> bool **)

let good_blkb b =
  (&&) (time_invb b) (aec_invb b.b_aecs)

(** val bparams_eqb : bparams -> bparams -> bool **)

let bparams_eqb a b =
  (&&)
    ((&&)
      ((&&)
        ((&&) ((&&) (N.eqb a.bp_tps b.bp_tps) (N.eqb a.bp_max b.bp_max))
          (N.eqb a.h_qr b.h_qr)) (N.eqb a.h_sig b.h_sig))
      (N.eqb a.h_rr b.h_rr)) (N.eqb a.h_other b.h_other)

(** val blk_params_okb : val0 list -> blk -> bool **)

let blk_params_okb ps b =
  (&&) (N.ltb b.b_bpi (N.of_nat (length ps)))
    (bparams_eqb b.b_bp (nth_bp ps b.b_bpi))

(** val merge_okb : minput list -> bool **)

let merge_okb ins =
  let pre = merged_preamble (run_pass1 ins) in
  (&&) (has_tyb filePreamble pre)
    (forallb (fun b ->
      if nonempty b
      then (&&) ((&&) (typed_blkb b) (blk_params_okb (params_of pre) b))
             (good_blkb b)
      else true) (pass2_blocks (run_pass1 ins).p_off ins))
