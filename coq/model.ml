
type __ = Obj.t

(** val negb : bool -> bool **)

let negb = function
| true -> false
| false -> true

type nat =
| O
| S of nat

type ('a, 'b) sum =
| Inl of 'a
| Inr of 'b

(** val fst : ('a1 * 'a2) -> 'a1 **)

let fst = function
| (x, _) -> x

(** val snd : ('a1 * 'a2) -> 'a2 **)

let snd = function
| (_, y) -> y

(** val length : 'a1 list -> nat **)

let rec length = function
| [] -> O
| _ :: l' -> S (length l')

(** val app : 'a1 list -> 'a1 list -> 'a1 list **)

let rec app l m =
  match l with
  | [] -> m
  | a :: l1 -> a :: (app l1 m)

type comparison =
| Eq
| Lt
| Gt

(** val compOpp : comparison -> comparison **)

let compOpp = function
| Eq -> Eq
| Lt -> Gt
| Gt -> Lt

module Coq__1 = struct
 (** val add : nat -> nat -> nat **)
 let rec add n0 m =
   match n0 with
   | O -> m
   | S p -> S (add p m)
end
include Coq__1

module Nat =
 struct
  (** val eqb : nat -> nat -> bool **)

  let rec eqb n0 m =
    match n0 with
    | O -> (match m with
            | O -> true
            | S _ -> false)
    | S n' -> (match m with
               | O -> false
               | S m' -> eqb n' m')
 end

(** val rev : 'a1 list -> 'a1 list **)

let rec rev = function
| [] -> []
| x :: l' -> app (rev l') (x :: [])

(** val rev_append : 'a1 list -> 'a1 list -> 'a1 list **)

let rec rev_append l l' =
  match l with
  | [] -> l'
  | a :: l0 -> rev_append l0 (a :: l')

(** val concat : 'a1 list list -> 'a1 list **)

let rec concat = function
| [] -> []
| x :: l0 -> app x (concat l0)

(** val flat_map : ('a1 -> 'a2 list) -> 'a1 list -> 'a2 list **)

let rec flat_map f = function
| [] -> []
| x :: t -> app (f x) (flat_map f t)

(** val fold_left : ('a1 -> 'a2 -> 'a1) -> 'a2 list -> 'a1 -> 'a1 **)

let rec fold_left f l a0 =
  match l with
  | [] -> a0
  | b :: t -> fold_left f t (f a0 b)

(** val firstn : nat -> 'a1 list -> 'a1 list **)

let rec firstn n0 l =
  match n0 with
  | O -> []
  | S n1 -> (match l with
             | [] -> []
             | a :: l0 -> a :: (firstn n1 l0))

(** val skipn : nat -> 'a1 list -> 'a1 list **)

let rec skipn n0 l =
  match n0 with
  | O -> l
  | S n1 -> (match l with
             | [] -> []
             | _ :: l0 -> skipn n1 l0)

type positive =
| XI of positive
| XO of positive
| XH

type n =
| N0
| Npos of positive

type z =
| Z0
| Zpos of positive
| Zneg of positive

module Pos =
 struct
  type mask =
  | IsNul
  | IsPos of positive
  | IsNeg
 end

module Coq_Pos =
 struct
  (** val succ : positive -> positive **)

  let rec succ = function
  | XI p -> XO (succ p)
  | XO p -> XI p
  | XH -> XO XH

  (** val add : positive -> positive -> positive **)

  let rec add x y =
    match x with
    | XI p ->
      (match y with
       | XI q -> XO (add_carry p q)
       | XO q -> XI (add p q)
       | XH -> XO (succ p))
    | XO p ->
      (match y with
       | XI q -> XI (add p q)
       | XO q -> XO (add p q)
       | XH -> XI p)
    | XH -> (match y with
             | XI q -> XO (succ q)
             | XO q -> XI q
             | XH -> XO XH)

  (** val add_carry : positive -> positive -> positive **)

  and add_carry x y =
    match x with
    | XI p ->
      (match y with
       | XI q -> XI (add_carry p q)
       | XO q -> XO (add_carry p q)
       | XH -> XI (succ p))
    | XO p ->
      (match y with
       | XI q -> XO (add_carry p q)
       | XO q -> XI (add p q)
       | XH -> XO (succ p))
    | XH ->
      (match y with
       | XI q -> XI (succ q)
       | XO q -> XO (succ q)
       | XH -> XI XH)

  (** val pred_double : positive -> positive **)

  let rec pred_double = function
  | XI p -> XI (XO p)
  | XO p -> XI (pred_double p)
  | XH -> XH

  type mask = Pos.mask =
  | IsNul
  | IsPos of positive
  | IsNeg

  (** val succ_double_mask : mask -> mask **)

  let succ_double_mask = function
  | IsNul -> IsPos XH
  | IsPos p -> IsPos (XI p)
  | IsNeg -> IsNeg

  (** val double_mask : mask -> mask **)

  let double_mask = function
  | IsPos p -> IsPos (XO p)
  | x0 -> x0

  (** val double_pred_mask : positive -> mask **)

  let double_pred_mask = function
  | XI p -> IsPos (XO (XO p))
  | XO p -> IsPos (XO (pred_double p))
  | XH -> IsNul

  (** val sub_mask : positive -> positive -> mask **)

  let rec sub_mask x y =
    match x with
    | XI p ->
      (match y with
       | XI q -> double_mask (sub_mask p q)
       | XO q -> succ_double_mask (sub_mask p q)
       | XH -> IsPos (XO p))
    | XO p ->
      (match y with
       | XI q -> succ_double_mask (sub_mask_carry p q)
       | XO q -> double_mask (sub_mask p q)
       | XH -> IsPos (pred_double p))
    | XH -> (match y with
             | XH -> IsNul
             | _ -> IsNeg)

  (** val sub_mask_carry : positive -> positive -> mask **)

  and sub_mask_carry x y =
    match x with
    | XI p ->
      (match y with
       | XI q -> succ_double_mask (sub_mask_carry p q)
       | XO q -> double_mask (sub_mask p q)
       | XH -> IsPos (pred_double p))
    | XO p ->
      (match y with
       | XI q -> double_mask (sub_mask_carry p q)
       | XO q -> succ_double_mask (sub_mask_carry p q)
       | XH -> double_pred_mask p)
    | XH -> IsNeg

  (** val mul : positive -> positive -> positive **)

  let rec mul x y =
    match x with
    | XI p -> add y (XO (mul p y))
    | XO p -> XO (mul p y)
    | XH -> y

  (** val iter : ('a1 -> 'a1) -> 'a1 -> positive -> 'a1 **)

  let rec iter f x = function
  | XI n' -> f (iter f (iter f x n') n')
  | XO n' -> iter f (iter f x n') n'
  | XH -> f x

  (** val pow : positive -> positive -> positive **)

  let pow x =
    iter (mul x) XH

  (** val compare_cont : comparison -> positive -> positive -> comparison **)

  let rec compare_cont r x y =
    match x with
    | XI p ->
      (match y with
       | XI q -> compare_cont r p q
       | XO q -> compare_cont Gt p q
       | XH -> Gt)
    | XO p ->
      (match y with
       | XI q -> compare_cont Lt p q
       | XO q -> compare_cont r p q
       | XH -> Gt)
    | XH -> (match y with
             | XH -> r
             | _ -> Lt)

  (** val compare : positive -> positive -> comparison **)

  let compare =
    compare_cont Eq

  (** val eqb : positive -> positive -> bool **)

  let rec eqb p q =
    match p with
    | XI p0 -> (match q with
                | XI q0 -> eqb p0 q0
                | _ -> false)
    | XO p0 -> (match q with
                | XO q0 -> eqb p0 q0
                | _ -> false)
    | XH -> (match q with
             | XH -> true
             | _ -> false)

  (** val coq_Nsucc_double : n -> n **)

  let coq_Nsucc_double = function
  | N0 -> Npos XH
  | Npos p -> Npos (XI p)

  (** val coq_Ndouble : n -> n **)

  let coq_Ndouble = function
  | N0 -> N0
  | Npos p -> Npos (XO p)

  (** val coq_lor : positive -> positive -> positive **)

  let rec coq_lor p q =
    match p with
    | XI p0 ->
      (match q with
       | XI q0 -> XI (coq_lor p0 q0)
       | XO q0 -> XI (coq_lor p0 q0)
       | XH -> p)
    | XO p0 ->
      (match q with
       | XI q0 -> XI (coq_lor p0 q0)
       | XO q0 -> XO (coq_lor p0 q0)
       | XH -> XI p0)
    | XH -> (match q with
             | XO q0 -> XI q0
             | _ -> q)

  (** val coq_land : positive -> positive -> n **)

  let rec coq_land p q =
    match p with
    | XI p0 ->
      (match q with
       | XI q0 -> coq_Nsucc_double (coq_land p0 q0)
       | XO q0 -> coq_Ndouble (coq_land p0 q0)
       | XH -> Npos XH)
    | XO p0 ->
      (match q with
       | XI q0 -> coq_Ndouble (coq_land p0 q0)
       | XO q0 -> coq_Ndouble (coq_land p0 q0)
       | XH -> N0)
    | XH -> (match q with
             | XO _ -> N0
             | _ -> Npos XH)

  (** val iter_op : ('a1 -> 'a1 -> 'a1) -> positive -> 'a1 -> 'a1 **)

  let rec iter_op op p a =
    match p with
    | XI p0 -> op a (iter_op op p0 (op a a))
    | XO p0 -> iter_op op p0 (op a a)
    | XH -> a

  (** val to_nat : positive -> nat **)

  let to_nat x =
    iter_op Coq__1.add x (S O)

  (** val of_succ_nat : nat -> positive **)

  let rec of_succ_nat = function
  | O -> XH
  | S x -> succ (of_succ_nat x)
 end

module N =
 struct
  (** val succ_double : n -> n **)

  let succ_double = function
  | N0 -> Npos XH
  | Npos p -> Npos (XI p)

  (** val double : n -> n **)

  let double = function
  | N0 -> N0
  | Npos p -> Npos (XO p)

  (** val add : n -> n -> n **)

  let add n0 m =
    match n0 with
    | N0 -> m
    | Npos p -> (match m with
                 | N0 -> n0
                 | Npos q -> Npos (Coq_Pos.add p q))

  (** val sub : n -> n -> n **)

  let sub n0 m =
    match n0 with
    | N0 -> N0
    | Npos n' ->
      (match m with
       | N0 -> n0
       | Npos m' ->
         (match Coq_Pos.sub_mask n' m' with
          | Coq_Pos.IsPos p -> Npos p
          | _ -> N0))

  (** val mul : n -> n -> n **)

  let mul n0 m =
    match n0 with
    | N0 -> N0
    | Npos p -> (match m with
                 | N0 -> N0
                 | Npos q -> Npos (Coq_Pos.mul p q))

  (** val compare : n -> n -> comparison **)

  let compare n0 m =
    match n0 with
    | N0 -> (match m with
             | N0 -> Eq
             | Npos _ -> Lt)
    | Npos n' -> (match m with
                  | N0 -> Gt
                  | Npos m' -> Coq_Pos.compare n' m')

  (** val eqb : n -> n -> bool **)

  let eqb n0 m =
    match n0 with
    | N0 -> (match m with
             | N0 -> true
             | Npos _ -> false)
    | Npos p -> (match m with
                 | N0 -> false
                 | Npos q -> Coq_Pos.eqb p q)

  (** val leb : n -> n -> bool **)

  let leb x y =
    match compare x y with
    | Gt -> false
    | _ -> true

  (** val ltb : n -> n -> bool **)

  let ltb x y =
    match compare x y with
    | Lt -> true
    | _ -> false

  (** val min : n -> n -> n **)

  let min n0 n' =
    match compare n0 n' with
    | Gt -> n'
    | _ -> n0

  (** val div2 : n -> n **)

  let div2 = function
  | N0 -> N0
  | Npos p0 -> (match p0 with
                | XI p -> Npos p
                | XO p -> Npos p
                | XH -> N0)

  (** val pow : n -> n -> n **)

  let pow n0 = function
  | N0 -> Npos XH
  | Npos p0 -> (match n0 with
                | N0 -> N0
                | Npos q -> Npos (Coq_Pos.pow q p0))

  (** val pos_div_eucl : positive -> n -> n * n **)

  let rec pos_div_eucl a b =
    match a with
    | XI a' ->
      let (q, r) = pos_div_eucl a' b in
      let r' = succ_double r in
      if leb b r' then ((succ_double q), (sub r' b)) else ((double q), r')
    | XO a' ->
      let (q, r) = pos_div_eucl a' b in
      let r' = double r in
      if leb b r' then ((succ_double q), (sub r' b)) else ((double q), r')
    | XH ->
      (match b with
       | N0 -> (N0, (Npos XH))
       | Npos p -> (match p with
                    | XH -> ((Npos XH), N0)
                    | _ -> (N0, (Npos XH))))

  (** val div_eucl : n -> n -> n * n **)

  let div_eucl a b =
    match a with
    | N0 -> (N0, N0)
    | Npos na -> (match b with
                  | N0 -> (N0, a)
                  | Npos _ -> pos_div_eucl na b)

  (** val modulo : n -> n -> n **)

  let modulo a b =
    snd (div_eucl a b)

  (** val coq_lor : n -> n -> n **)

  let coq_lor n0 m =
    match n0 with
    | N0 -> m
    | Npos p -> (match m with
                 | N0 -> n0
                 | Npos q -> Npos (Coq_Pos.coq_lor p q))

  (** val coq_land : n -> n -> n **)

  let coq_land n0 m =
    match n0 with
    | N0 -> N0
    | Npos p -> (match m with
                 | N0 -> N0
                 | Npos q -> Coq_Pos.coq_land p q)

  (** val shiftr : n -> n -> n **)

  let shiftr a = function
  | N0 -> a
  | Npos p -> Coq_Pos.iter div2 a p

  (** val to_nat : n -> nat **)

  let to_nat = function
  | N0 -> O
  | Npos p -> Coq_Pos.to_nat p

  (** val of_nat : nat -> n **)

  let of_nat = function
  | O -> N0
  | S n' -> Npos (Coq_Pos.of_succ_nat n')
 end

module Z =
 struct
  (** val double : z -> z **)

  let double = function
  | Z0 -> Z0
  | Zpos p -> Zpos (XO p)
  | Zneg p -> Zneg (XO p)

  (** val succ_double : z -> z **)

  let succ_double = function
  | Z0 -> Zpos XH
  | Zpos p -> Zpos (XI p)
  | Zneg p -> Zneg (Coq_Pos.pred_double p)

  (** val pred_double : z -> z **)

  let pred_double = function
  | Z0 -> Zneg XH
  | Zpos p -> Zpos (Coq_Pos.pred_double p)
  | Zneg p -> Zneg (XI p)

  (** val pos_sub : positive -> positive -> z **)

  let rec pos_sub x y =
    match x with
    | XI p ->
      (match y with
       | XI q -> double (pos_sub p q)
       | XO q -> succ_double (pos_sub p q)
       | XH -> Zpos (XO p))
    | XO p ->
      (match y with
       | XI q -> pred_double (pos_sub p q)
       | XO q -> double (pos_sub p q)
       | XH -> Zpos (Coq_Pos.pred_double p))
    | XH ->
      (match y with
       | XI q -> Zneg (XO q)
       | XO q -> Zneg (Coq_Pos.pred_double q)
       | XH -> Z0)

  (** val add : z -> z -> z **)

  let add x y =
    match x with
    | Z0 -> y
    | Zpos x' ->
      (match y with
       | Z0 -> x
       | Zpos y' -> Zpos (Coq_Pos.add x' y')
       | Zneg y' -> pos_sub x' y')
    | Zneg x' ->
      (match y with
       | Z0 -> x
       | Zpos y' -> pos_sub y' x'
       | Zneg y' -> Zneg (Coq_Pos.add x' y'))

  (** val opp : z -> z **)

  let opp = function
  | Z0 -> Z0
  | Zpos x0 -> Zneg x0
  | Zneg x0 -> Zpos x0

  (** val pred : z -> z **)

  let pred x =
    add x (Zneg XH)

  (** val sub : z -> z -> z **)

  let sub m n0 =
    add m (opp n0)

  (** val mul : z -> z -> z **)

  let mul x y =
    match x with
    | Z0 -> Z0
    | Zpos x' ->
      (match y with
       | Z0 -> Z0
       | Zpos y' -> Zpos (Coq_Pos.mul x' y')
       | Zneg y' -> Zneg (Coq_Pos.mul x' y'))
    | Zneg x' ->
      (match y with
       | Z0 -> Z0
       | Zpos y' -> Zneg (Coq_Pos.mul x' y')
       | Zneg y' -> Zpos (Coq_Pos.mul x' y'))

  (** val compare : z -> z -> comparison **)

  let compare x y =
    match x with
    | Z0 -> (match y with
             | Z0 -> Eq
             | Zpos _ -> Lt
             | Zneg _ -> Gt)
    | Zpos x' -> (match y with
                  | Zpos y' -> Coq_Pos.compare x' y'
                  | _ -> Gt)
    | Zneg x' ->
      (match y with
       | Zneg y' -> compOpp (Coq_Pos.compare x' y')
       | _ -> Lt)

  (** val leb : z -> z -> bool **)

  let leb x y =
    match compare x y with
    | Gt -> false
    | _ -> true

  (** val ltb : z -> z -> bool **)

  let ltb x y =
    match compare x y with
    | Lt -> true
    | _ -> false

  (** val eqb : z -> z -> bool **)

  let eqb x y =
    match x with
    | Z0 -> (match y with
             | Z0 -> true
             | _ -> false)
    | Zpos p -> (match y with
                 | Zpos q -> Coq_Pos.eqb p q
                 | _ -> false)
    | Zneg p -> (match y with
                 | Zneg q -> Coq_Pos.eqb p q
                 | _ -> false)

  (** val to_N : z -> n **)

  let to_N = function
  | Zpos p -> Npos p
  | _ -> N0

  (** val of_N : n -> z **)

  let of_N = function
  | N0 -> Z0
  | Npos p -> Zpos p

  (** val pos_div_eucl : positive -> z -> z * z **)

  let rec pos_div_eucl a b =
    match a with
    | XI a' ->
      let (q, r) = pos_div_eucl a' b in
      let r' = add (mul (Zpos (XO XH)) r) (Zpos XH) in
      if ltb r' b
      then ((mul (Zpos (XO XH)) q), r')
      else ((add (mul (Zpos (XO XH)) q) (Zpos XH)), (sub r' b))
    | XO a' ->
      let (q, r) = pos_div_eucl a' b in
      let r' = mul (Zpos (XO XH)) r in
      if ltb r' b
      then ((mul (Zpos (XO XH)) q), r')
      else ((add (mul (Zpos (XO XH)) q) (Zpos XH)), (sub r' b))
    | XH -> if leb (Zpos (XO XH)) b then (Z0, (Zpos XH)) else ((Zpos XH), Z0)

  (** val div_eucl : z -> z -> z * z **)

  let div_eucl a b =
    match a with
    | Z0 -> (Z0, Z0)
    | Zpos a' ->
      (match b with
       | Z0 -> (Z0, a)
       | Zpos _ -> pos_div_eucl a' b
       | Zneg b' ->
         let (q, r) = pos_div_eucl a' (Zpos b') in
         (match r with
          | Z0 -> ((opp q), Z0)
          | _ -> ((opp (add q (Zpos XH))), (add b r))))
    | Zneg a' ->
      (match b with
       | Z0 -> (Z0, a)
       | Zpos _ ->
         let (q, r) = pos_div_eucl a' b in
         (match r with
          | Z0 -> ((opp q), Z0)
          | _ -> ((opp (add q (Zpos XH))), (sub b r)))
       | Zneg b' -> let (q, r) = pos_div_eucl a' (Zpos b') in (q, (opp r)))

  (** val div : z -> z -> z **)

  let div a b =
    let (q, _) = div_eucl a b in q

  (** val modulo : z -> z -> z **)

  let modulo a b =
    let (_, r) = div_eucl a b in r

  (** val lnot : z -> z **)

  let lnot a =
    pred (opp a)
 end

type err =
| EEnd
| EDec
| ERun
| EOut
| EFuel

type 'a prog =
| Ret of 'a
| Throw of err
| Next of (n -> 'a prog)
| Peek of (n -> 'a prog)
| Reserve of n * 'a prog

(** val bind : 'a1 prog -> ('a1 -> 'a2 prog) -> 'a2 prog **)

let rec bind p f =
  match p with
  | Ret a -> f a
  | Throw e -> Throw e
  | Next k -> Next (fun b -> bind (k b) f)
  | Peek k -> Peek (fun b -> bind (k b) f)
  | Reserve (n0, k) -> Reserve (n0, (bind k f))

(** val run : 'a1 prog -> n list -> ('a1, err) sum * n list **)

let rec run p inp =
  match p with
  | Ret a -> ((Inl a), inp)
  | Throw e -> ((Inr e), inp)
  | Next k -> (match inp with
               | [] -> ((Inr EEnd), [])
               | b :: r -> run (k b) r)
  | Peek k ->
    (match inp with
     | [] -> ((Inr EEnd), [])
     | b :: _ -> run (k b) inp)
  | Reserve (_, k) -> run k inp

(** val frev : 'a1 list -> 'a1 list **)

let frev l =
  rev_append l []

(** val two64 : n **)

let two64 =
  Npos (XO (XO (XO (XO (XO (XO (XO (XO (XO (XO (XO (XO (XO (XO (XO (XO (XO
    (XO (XO (XO (XO (XO (XO (XO (XO (XO (XO (XO (XO (XO (XO (XO (XO (XO (XO
    (XO (XO (XO (XO (XO (XO (XO (XO (XO (XO (XO (XO (XO (XO (XO (XO (XO (XO
    (XO (XO (XO (XO (XO (XO (XO (XO (XO (XO (XO
    XH))))))))))))))))))))))))))))))))))))))))))))))))))))))))))))))))

(** val two63 : n **)

let two63 =
  Npos (XO (XO (XO (XO (XO (XO (XO (XO (XO (XO (XO (XO (XO (XO (XO (XO (XO
    (XO (XO (XO (XO (XO (XO (XO (XO (XO (XO (XO (XO (XO (XO (XO (XO (XO (XO
    (XO (XO (XO (XO (XO (XO (XO (XO (XO (XO (XO (XO (XO (XO (XO (XO (XO (XO
    (XO (XO (XO (XO (XO (XO (XO (XO (XO (XO
    XH)))))))))))))))))))))))))))))))))))))))))))))))))))))))))))))))

type major =
| MU
| MN
| MB
| MT
| MA
| MM
| MTag
| M7

(** val mcode : major -> n **)

let mcode = function
| MU -> N0
| MN -> Npos (XO (XO (XO (XO (XO XH)))))
| MB -> Npos (XO (XO (XO (XO (XO (XO XH))))))
| MT -> Npos (XO (XO (XO (XO (XO (XI XH))))))
| MA -> Npos (XO (XO (XO (XO (XO (XO (XO XH)))))))
| MM -> Npos (XO (XO (XO (XO (XO (XI (XO XH)))))))
| MTag -> Npos (XO (XO (XO (XO (XO (XO (XI XH)))))))
| M7 -> Npos (XO (XO (XO (XO (XO (XI (XI XH)))))))

(** val bUFFER_SIZE : n **)

let bUFFER_SIZE =
  Npos (XO (XO (XO (XO (XO (XO (XO (XO (XO (XO (XO XH)))))))))))

(** val t_UNSIGNED : n **)

let t_UNSIGNED =
  N0

(** val t_NEGATIVE : n **)

let t_NEGATIVE =
  Npos (XO (XO (XO (XO (XO XH)))))

(** val t_BYTES : n **)

let t_BYTES =
  Npos (XO (XO (XO (XO (XO (XO XH))))))

(** val t_TEXT : n **)

let t_TEXT =
  Npos (XO (XO (XO (XO (XO (XI XH))))))

(** val t_ARRAY : n **)

let t_ARRAY =
  Npos (XO (XO (XO (XO (XO (XO (XO XH)))))))

(** val t_MAP : n **)

let t_MAP =
  Npos (XO (XO (XO (XO (XO (XI (XO XH)))))))

(** val t_SIMPLE : n **)

let t_SIMPLE =
  Npos (XO (XO (XO (XO (XO (XI (XI XH)))))))

type enc = { buf : n list; chunks : n list list }

(** val enc_init : enc **)

let enc_init =
  { buf = []; chunks = [] }

(** val avail : enc -> n **)

let avail e =
  N.sub bUFFER_SIZE (N.of_nat (length e.buf))

(** val stream : enc -> n list **)

let stream e =
  app (concat (rev e.chunks)) e.buf

(** val flush : enc -> enc **)

let flush e =
  match e.buf with
  | [] -> e
  | _ :: _ -> { buf = []; chunks = (e.buf :: e.chunks) }

(** val byte : n -> n **)

let byte v =
  N.modulo v (Npos (XO (XO (XO (XO (XO (XO (XO (XO XH)))))))))

(** val write_int : n -> n -> n -> n list **)

let write_int av value major0 =
  if N.leb value (Npos (XI (XI (XI (XO XH)))))
  then if N.leb (Npos XH) av then (N.coq_lor major0 value) :: [] else []
  else if N.leb value (Npos (XI (XI (XI (XI (XI (XI (XI XH))))))))
       then if N.leb (Npos (XO XH)) av
            then (N.coq_lor major0 (Npos (XO (XO (XO (XI XH)))))) :: (
                   (byte value) :: [])
            else []
       else if N.leb value (Npos (XI (XI (XI (XI (XI (XI (XI (XI (XI (XI (XI
                 (XI (XI (XI (XI XH))))))))))))))))
            then if N.leb (Npos (XI XH)) av
                 then (N.coq_lor major0 (Npos (XI (XO (XO (XI XH)))))) :: (
                        (byte (N.shiftr value (Npos (XO (XO (XO XH)))))) :: (
                        (byte value) :: []))
                 else []
            else if N.leb value (Npos (XI (XI (XI (XI (XI (XI (XI (XI (XI (XI
                      (XI (XI (XI (XI (XI (XI (XI (XI (XI (XI (XI (XI (XI (XI
                      (XI (XI (XI (XI (XI (XI (XI
                      XH))))))))))))))))))))))))))))))))
                 then if N.leb (Npos (XI (XO XH))) av
                      then (N.coq_lor major0 (Npos (XO (XI (XO (XI XH)))))) :: (
                             (byte
                               (N.shiftr value (Npos (XO (XO (XO (XI XH))))))) :: (
                             (byte
                               (N.shiftr value (Npos (XO (XO (XO (XO XH))))))) :: (
                             (byte (N.shiftr value (Npos (XO (XO (XO XH)))))) :: (
                             (byte value) :: []))))
                      else []
                 else if N.leb (Npos (XI (XO (XO XH)))) av
                      then (N.coq_lor major0 (Npos (XI (XI (XO (XI XH)))))) :: (
                             (byte
                               (N.shiftr value (Npos (XO (XO (XO (XI (XI
                                 XH)))))))) :: ((byte
                                                  (N.shiftr value (Npos (XO
                                                    (XO (XO (XO (XI XH)))))))) :: (
                             (byte
                               (N.shiftr value (Npos (XO (XO (XO (XI (XO
                                 XH)))))))) :: ((byte
                                                  (N.shiftr value (Npos (XO
                                                    (XO (XO (XO (XO XH)))))))) :: (
                             (byte
                               (N.shiftr value (Npos (XO (XO (XO (XI XH))))))) :: (
                             (byte
                               (N.shiftr value (Npos (XO (XO (XO (XO XH))))))) :: (
                             (byte (N.shiftr value (Npos (XO (XO (XO XH)))))) :: (
                             (byte value) :: []))))))))
                      else []

(** val put : enc -> n list -> enc **)

let put e bs =
  { buf = (app e.buf bs); chunks = e.chunks }

(** val op_int : n -> n -> n -> enc -> enc * n **)

let op_int need major0 v e =
  let e1 = if N.ltb (avail e) need then flush e else e in
  let bs = write_int (avail e1) v major0 in
  ((put e1 bs), (N.of_nat (length bs)))

(** val op_fixed : n -> enc -> enc * n **)

let op_fixed b e =
  let e1 = if N.ltb (avail e) (Npos XH) then flush e else e in
  if N.ltb (avail e1) (Npos XH)
  then (e1, N0)
  else ((put e1 (b :: [])), (Npos XH))

(** val write_array_start : n -> enc -> enc * n **)

let write_array_start n0 =
  op_int (Npos (XI (XO (XO XH)))) t_ARRAY n0

(** val write_map_start : n -> enc -> enc * n **)

let write_map_start n0 =
  op_int (Npos (XI (XO (XO XH)))) t_MAP n0

(** val write_indef_array_start : enc -> enc * n **)

let write_indef_array_start =
  op_fixed (N.coq_lor t_ARRAY (Npos (XI (XI (XI (XI XH))))))

(** val write_indef_map_start : enc -> enc * n **)

let write_indef_map_start =
  op_fixed (N.coq_lor t_MAP (Npos (XI (XI (XI (XI XH))))))

(** val write_break : enc -> enc * n **)

let write_break =
  op_fixed (N.coq_lor t_SIMPLE (Npos (XI (XI (XI (XI XH))))))

(** val write_bool : bool -> enc -> enc * n **)

let write_bool b =
  op_int (Npos XH) t_SIMPLE
    (if b then Npos (XI (XO (XI (XO XH)))) else Npos (XO (XO (XI (XO XH)))))

(** val write_u8 : n -> enc -> enc * n **)

let write_u8 v =
  op_int (Npos (XO XH)) t_UNSIGNED v

(** val write_u16 : n -> enc -> enc * n **)

let write_u16 v =
  op_int (Npos (XI XH)) t_UNSIGNED v

(** val write_u32 : n -> enc -> enc * n **)

let write_u32 v =
  op_int (Npos (XI (XO XH))) t_UNSIGNED v

(** val write_u64 : n -> enc -> enc * n **)

let write_u64 v =
  op_int (Npos (XI (XO (XO XH)))) t_UNSIGNED v

(** val op_sint : n -> z -> enc -> enc * n **)

let op_sint need z0 e =
  if Z.ltb z0 Z0
  then op_int need t_NEGATIVE (Z.to_N (Z.lnot z0)) e
  else op_int need t_UNSIGNED (Z.to_N z0) e

(** val write_i8 : z -> enc -> enc * n **)

let write_i8 =
  op_sint (Npos (XO XH))

(** val write_i16 : z -> enc -> enc * n **)

let write_i16 =
  op_sint (Npos (XI XH))

(** val write_i32 : z -> enc -> enc * n **)

let write_i32 =
  op_sint (Npos (XI (XO XH)))

(** val write_i64 : z -> enc -> enc * n **)

let write_i64 =
  op_sint (Npos (XI (XO (XO XH))))

(** val write_string : nat -> enc -> n list -> enc **)

let rec write_string fuel e bs =
  match fuel with
  | O -> e
  | S f ->
    let av = N.to_nat (avail e) in
    if N.leb (N.of_nat (length bs)) (avail e)
    then put e bs
    else write_string f (flush (put e (firstn av bs))) (skipn av bs)

(** val op_string : n -> n list -> enc -> enc * n **)

let op_string major0 bs e =
  let e1 = if N.ltb (avail e) (Npos (XI (XO (XO XH)))) then flush e else e in
  let hd = write_int (avail e1) (N.of_nat (length bs)) major0 in
  let e2 = put e1 hd in
  ((write_string (S (S (length bs))) e2 bs),
  (N.add (N.of_nat (length hd)) (N.of_nat (length bs))))

(** val write_bytestring : n list -> enc -> enc * n **)

let write_bytestring =
  op_string t_BYTES

(** val write_textstring : n list -> enc -> enc * n **)

let write_textstring =
  op_string t_TEXT

type eop =
| OArr of n
| OIndefArr
| OMap of n
| OIndefMap
| OBytes of n list
| OText of n list
| OBreak
| OBool of bool
| OU8 of n
| OU16 of n
| OU32 of n
| OU64 of n
| OI8 of z
| OI16 of z
| OI32 of z
| OI64 of z

(** val estep : enc -> eop -> enc * n **)

let estep e = function
| OArr n0 -> write_array_start n0 e
| OIndefArr -> write_indef_array_start e
| OMap n0 -> write_map_start n0 e
| OIndefMap -> write_indef_map_start e
| OBytes bs -> write_bytestring bs e
| OText bs -> write_textstring bs e
| OBreak -> write_break e
| OBool b -> write_bool b e
| OU8 v -> write_u8 v e
| OU16 v -> write_u16 v e
| OU32 v -> write_u32 v e
| OU64 v -> write_u64 v e
| OI8 z0 -> write_i8 z0 e
| OI16 z0 -> write_i16 z0 e
| OI32 z0 -> write_i32 z0 e
| OI64 z0 -> write_i64 z0 e

(** val eruns : enc -> eop list -> enc * n list **)

let rec eruns e = function
| [] -> (e, [])
| o :: os ->
  let (e1, r) = estep e o in let (e2, rs) = eruns e1 os in (e2, (r :: rs))

(** val m64 : z **)

let m64 =
  Zpos (XO (XO (XO (XO (XO (XO (XO (XO (XO (XO (XO (XO (XO (XO (XO (XO (XO
    (XO (XO (XO (XO (XO (XO (XO (XO (XO (XO (XO (XO (XO (XO (XO (XO (XO (XO
    (XO (XO (XO (XO (XO (XO (XO (XO (XO (XO (XO (XO (XO (XO (XO (XO (XO (XO
    (XO (XO (XO (XO (XO (XO (XO (XO (XO (XO (XO
    XH))))))))))))))))))))))))))))))))))))))))))))))))))))))))))))))))

(** val m63 : z **)

let m63 =
  Zpos (XO (XO (XO (XO (XO (XO (XO (XO (XO (XO (XO (XO (XO (XO (XO (XO (XO
    (XO (XO (XO (XO (XO (XO (XO (XO (XO (XO (XO (XO (XO (XO (XO (XO (XO (XO
    (XO (XO (XO (XO (XO (XO (XO (XO (XO (XO (XO (XO (XO (XO (XO (XO (XO (XO
    (XO (XO (XO (XO (XO (XO (XO (XO (XO (XO
    XH)))))))))))))))))))))))))))))))))))))))))))))))))))))))))))))))

(** val i64MAX : z **)

let i64MAX =
  Zpos (XI (XI (XI (XI (XI (XI (XI (XI (XI (XI (XI (XI (XI (XI (XI (XI (XI
    (XI (XI (XI (XI (XI (XI (XI (XI (XI (XI (XI (XI (XI (XI (XI (XI (XI (XI
    (XI (XI (XI (XI (XI (XI (XI (XI (XI (XI (XI (XI (XI (XI (XI (XI (XI (XI
    (XI (XI (XI (XI (XI (XI (XI (XI (XI
    XH))))))))))))))))))))))))))))))))))))))))))))))))))))))))))))))

(** val to_i64 : z -> z **)

let to_i64 z0 =
  let w = Z.modulo z0 m64 in if Z.ltb w m63 then w else Z.sub w m64

(** val in_i64 : z -> bool **)

let in_i64 z0 =
  (&&) (Z.leb (Z.opp m63) z0) (Z.ltb z0 m63)

type 'a tres =
| TOk of 'a
| TThrow
| TUB

type ts = { secs : z; ticks : z }

(** val total_ticks : ts -> z -> z **)

let total_ticks t tps =
  to_i64 (Z.add (Z.mul t.secs tps) t.ticks)

(** val get_time_offset : ts -> ts -> z -> z tres **)

let get_time_offset t ref tps =
  if Z.eqb tps Z0
  then TThrow
  else let d = Z.sub (total_ticks t tps) (total_ticks ref tps) in
       if in_i64 d then TOk d else TUB

(** val add_time_offset : ts -> z -> z -> ts tres **)

let add_time_offset t offset tps =
  if Z.eqb tps Z0
  then TThrow
  else let tk = total_ticks t tps in
       if (||)
            ((||) (Z.ltb tk Z0)
              ((&&) (Z.ltb offset Z0) (Z.ltb (Z.add tk offset) Z0)))
            ((&&) (Z.ltb Z0 offset) (Z.ltb (Z.sub i64MAX offset) tk))
       then TThrow
       else let n0 = Z.add tk offset in
            TOk { secs = (Z.div n0 tps); ticks = (Z.modulo n0 tps) }

(** val ts_lt : ts -> ts -> bool **)

let ts_lt a b =
  if Z.ltb a.secs b.secs
  then true
  else (&&) (Z.eqb a.secs b.secs) (Z.ltb a.ticks b.ticks)

(** val ts_le : ts -> ts -> bool **)

let ts_le a b =
  if Z.ltb a.secs b.secs
  then true
  else (&&) (Z.eqb a.secs b.secs) (Z.leb a.ticks b.ticks)

type btime = { earliest : ts; nitems : nat; stored : ts list }

(** val bt_init : btime **)

let bt_init =
  { earliest = { secs = Z0; ticks = Z0 }; nitems = O; stored = [] }

type tev = { ev_ts : ts option; ev_store_time : bool; ev_filled : bool }

(** val bt_add : btime -> tev -> btime **)

let bt_add b e =
  let ear =
    match e.ev_ts with
    | Some t ->
      if (||) (Nat.eqb b.nitems O) (ts_lt t b.earliest) then t else b.earliest
    | None -> b.earliest
  in
  let pushed =
    (||) e.ev_filled
      (match e.ev_ts with
       | Some _ -> e.ev_store_time
       | None -> false)
  in
  { earliest = ear; nitems = (if pushed then S b.nitems else b.nitems);
  stored =
  (match e.ev_ts with
   | Some t -> if e.ev_store_time then t :: b.stored else b.stored
   | None -> b.stored) }

(** val dEC_BUFFER_SIZE : n **)

let dEC_BUFFER_SIZE =
  Npos (XI (XI (XI (XI (XI (XI (XI (XI (XI (XI (XI (XI (XI (XI (XI
    XH)))))))))))))))

(** val major_of : n -> major **)

let major_of b =
  let t = N.coq_land b (Npos (XO (XO (XO (XO (XO (XI (XI XH)))))))) in
  if N.eqb t N0
  then MU
  else if N.eqb t (Npos (XO (XO (XO (XO (XO XH))))))
       then MN
       else if N.eqb t (Npos (XO (XO (XO (XO (XO (XO XH)))))))
            then MB
            else if N.eqb t (Npos (XO (XO (XO (XO (XO (XI XH)))))))
                 then MT
                 else if N.eqb t (Npos (XO (XO (XO (XO (XO (XO (XO XH))))))))
                      then MA
                      else if N.eqb t (Npos (XO (XO (XO (XO (XO (XI (XO
                                XH))))))))
                           then MM
                           else if N.eqb t (Npos (XO (XO (XO (XO (XO (XO (XI
                                     XH))))))))
                                then MTag
                                else M7

(** val major_eqb : major -> major -> bool **)

let major_eqb a b =
  N.eqb (mcode a) (mcode b)

(** val read_type : (major * n) prog **)

let read_type =
  Next (fun b -> Ret ((major_of b),
    (N.coq_land b (Npos (XI (XI (XI (XI XH))))))))

(** val peek_type : major option prog **)

let peek_type =
  Peek (fun b -> Ret
    (if N.eqb b (Npos (XI (XI (XI (XI (XI (XI (XI XH))))))))
     then None
     else Some (major_of b)))

(** val read_be : nat -> n -> n prog **)

let rec read_be k acc =
  match k with
  | O -> Ret acc
  | S k' ->
    Next (fun b ->
      read_be k'
        (N.add (N.mul acc (Npos (XO (XO (XO (XO (XO (XO (XO (XO XH))))))))))
          b))

(** val read_int : n -> n prog **)

let read_int ai =
  if N.leb ai (Npos (XI (XI (XI (XO XH)))))
  then Ret ai
  else if N.eqb ai (Npos (XO (XO (XO (XI XH)))))
       then read_be (S O) N0
       else if N.eqb ai (Npos (XI (XO (XO (XI XH)))))
            then read_be (S (S O)) N0
            else if N.eqb ai (Npos (XO (XI (XO (XI XH)))))
                 then read_be (S (S (S (S O)))) N0
                 else if N.eqb ai (Npos (XI (XI (XO (XI XH)))))
                      then read_be (S (S (S (S (S (S (S (S O)))))))) N0
                      else Ret N0

(** val to_i0 : n -> z **)

let to_i0 u =
  if N.ltb u two63 then Z.of_N u else Z.sub (Z.of_N u) (Z.of_N two64)

(** val neg_of : n -> z **)

let neg_of v =
  to_i0 (N.modulo (N.sub (N.sub two64 (Npos XH)) v) two64)

(** val bad_ai : n -> bool **)

let bad_ai ai =
  (&&) (N.leb (Npos (XO (XO (XI (XI XH))))) ai)
    (N.leb ai (Npos (XO (XI (XI (XI XH))))))

(** val read_unsigned : n prog **)

let read_unsigned =
  bind read_type (fun ta ->
    match fst ta with
    | MU ->
      if N.leb (Npos (XO (XO (XI (XI XH))))) (snd ta)
      then Throw EDec
      else read_int (snd ta)
    | _ -> Throw EDec)

(** val read_negative : z prog **)

let read_negative =
  bind read_type (fun ta ->
    match fst ta with
    | MN ->
      if N.leb (Npos (XO (XO (XI (XI XH))))) (snd ta)
      then Throw EDec
      else bind (read_int (snd ta)) (fun v -> Ret (neg_of v))
    | _ -> Throw EDec)

(** val read_integer : z prog **)

let read_integer =
  bind peek_type (fun pk ->
    match pk with
    | Some m ->
      (match m with
       | MU -> bind read_unsigned (fun v -> Ret (to_i0 v))
       | MN -> read_negative
       | _ -> Throw EDec)
    | None -> Throw EDec)

(** val read_bool : bool prog **)

let read_bool =
  bind read_type (fun ta ->
    match fst ta with
    | MU ->
      if N.leb (Npos (XO (XO (XI (XI XH))))) (snd ta)
      then Throw EDec
      else bind (read_int (snd ta)) (fun v -> Ret (negb (N.eqb v N0)))
    | M7 ->
      if (||) (N.eqb (snd ta) (Npos (XO (XO (XI (XO XH))))))
           (N.eqb (snd ta) (Npos (XI (XO (XI (XO XH))))))
      then Ret (N.eqb (snd ta) (Npos (XI (XO (XI (XO XH))))))
      else Throw EDec
    | _ -> Throw EDec)

(** val read_break : unit prog **)

let read_break =
  bind read_type (fun ta ->
    match fst ta with
    | M7 ->
      if N.eqb (snd ta) (Npos (XI (XI (XI (XI XH)))))
      then Ret ()
      else Throw EDec
    | _ -> Throw EDec)

(** val read_bytes : nat -> n -> n list -> n list prog **)

let rec read_bytes g n0 racc =
  if N.eqb n0 N0
  then Ret racc
  else (match g with
        | O -> Throw EFuel
        | S g' ->
          Next (fun b -> read_bytes g' (N.sub n0 (Npos XH)) (b :: racc)))

(** val reserve_req : n -> n **)

let reserve_req n0 =
  N.min n0 dEC_BUFFER_SIZE

(** val read_chunks : major -> nat -> nat -> n list -> n list prog **)

let rec read_chunks m g fuel racc =
  match fuel with
  | O -> Throw EFuel
  | S fuel' ->
    bind peek_type (fun pk ->
      match pk with
      | Some _ ->
        bind read_type (fun ta ->
          if negb (major_eqb (fst ta) m)
          then Throw EDec
          else if N.eqb (snd ta) (Npos (XI (XI (XI (XI XH)))))
               then Throw EDec
               else bind (read_int (snd ta)) (fun len -> Reserve
                      ((reserve_req len),
                      (bind (read_bytes g len racc) (fun racc' ->
                        read_chunks m g fuel' racc')))))
      | None -> bind read_break (fun _ -> Ret racc))

(** val read_string : major -> nat -> n -> bool -> n list prog **)

let read_string m g length0 = function
| true -> bind (read_chunks m g g []) (fun racc -> Ret (frev racc))
| false ->
  Reserve ((reserve_req length0),
    (bind (read_bytes g length0 []) (fun racc -> Ret (frev racc))))

(** val read_xstring : major -> nat -> n list prog **)

let read_xstring m g =
  bind read_type (fun ta ->
    if negb (major_eqb (fst ta) m)
    then Throw EDec
    else if bad_ai (snd ta)
         then Throw EDec
         else bind (read_int (snd ta)) (fun len ->
                read_string m g len
                  (N.eqb (snd ta) (Npos (XI (XI (XI (XI XH))))))))

(** val read_bytestring : nat -> n list prog **)

let read_bytestring =
  read_xstring MB

(** val read_textstring : nat -> n list prog **)

let read_textstring =
  read_xstring MT

(** val read_xstart : major -> (n * bool) prog **)

let read_xstart m =
  bind read_type (fun ta ->
    if negb (major_eqb (fst ta) m)
    then Throw EDec
    else if bad_ai (snd ta)
         then Throw EDec
         else if N.eqb (snd ta) (Npos (XI (XI (XI (XI XH)))))
              then Ret (N0, true)
              else bind (read_int (snd ta)) (fun n0 -> Ret (n0, false)))

(** val read_array_start : (n * bool) prog **)

let read_array_start =
  read_xstart MA

(** val read_map_start : (n * bool) prog **)

let read_map_start =
  read_xstart MM

(** val loop_n : unit prog -> nat -> n -> unit prog **)

let rec loop_n sk g n0 =
  if N.eqb n0 N0
  then Ret ()
  else (match g with
        | O -> Throw EFuel
        | S g' -> bind sk (fun _ -> loop_n sk g' (N.sub n0 (Npos XH))))

(** val loop_indef : unit prog -> nat -> unit prog **)

let rec loop_indef sk = function
| O -> Throw EFuel
| S g' ->
  bind peek_type (fun pk ->
    match pk with
    | Some _ -> bind sk (fun _ -> loop_indef sk g')
    | None -> Next (fun _ -> Ret ()))

(** val skip : nat -> nat -> unit prog **)

let rec skip g = function
| O -> Throw EFuel
| S f' ->
  bind read_type (fun ta ->
    let ai = snd ta in
    (match fst ta with
     | MU ->
       if N.leb (Npos (XO (XO (XI (XI XH))))) ai
       then Throw EDec
       else bind (read_int ai) (fun _ -> Ret ())
     | MN ->
       if N.leb (Npos (XO (XO (XI (XI XH))))) ai
       then Throw EDec
       else bind (read_int ai) (fun _ -> Ret ())
     | MA ->
       if bad_ai ai
       then Throw EDec
       else if N.eqb ai (Npos (XI (XI (XI (XI XH)))))
            then loop_indef (skip g f') g
            else bind (read_int ai) (fun n0 -> loop_n (skip g f') g n0)
     | MM ->
       if bad_ai ai
       then Throw EDec
       else if N.eqb ai (Npos (XI (XI (XI (XI XH)))))
            then loop_indef (skip g f') g
            else bind (read_int ai) (fun n0 ->
                   loop_n (skip g f') g (N.mul (Npos (XO XH)) n0))
     | MTag ->
       if N.leb (Npos (XO (XO (XI (XI XH))))) ai
       then Throw EDec
       else bind (read_int ai) (fun _ -> skip g f')
     | M7 ->
       if bad_ai ai then Throw EDec else bind (read_int ai) (fun _ -> Ret ())
     | _ ->
       if bad_ai ai
       then Throw EDec
       else bind (read_int ai) (fun n0 ->
              bind
                (read_string (fst ta) g n0
                  (N.eqb ai (Npos (XI (XI (XI (XI XH))))))) (fun _ -> Ret ()))))

(** val skip_item : nat -> unit prog **)

let skip_item g =
  skip g g

type phys = { win : n list; rest : n list; eof : bool }

(** val ended : phys -> phys **)

let ended s =
  { win = []; rest = s.rest; eof = true }

(** val refill : n -> phys -> phys option **)

let refill b s =
  if s.eof
  then None
  else let chunk = firstn (N.to_nat b) s.rest in
       (match chunk with
        | [] -> None
        | _ :: _ ->
          Some { win = chunk; rest = (skipn (N.to_nat b) s.rest); eof =
            (N.ltb (N.of_nat (length chunk)) b) })

(** val ensure : n -> phys -> phys option **)

let ensure b s =
  match s.win with
  | [] -> refill b s
  | _ :: _ -> Some s

(** val run_phys : n -> 'a1 prog -> phys -> ('a1, err) sum * phys **)

let rec run_phys b p s =
  match p with
  | Ret a -> ((Inl a), s)
  | Throw e -> ((Inr e), s)
  | Next k ->
    (match ensure b s with
     | Some s' ->
       (match s'.win with
        | [] -> ((Inr EEnd), (ended s'))
        | b0 :: w ->
          run_phys b (k b0) { win = w; rest = s'.rest; eof = s'.eof })
     | None -> ((Inr EEnd), (ended s)))
  | Peek k ->
    (match ensure b s with
     | Some s' ->
       (match s'.win with
        | [] -> ((Inr EEnd), (ended s'))
        | b0 :: _ -> run_phys b (k b0) s')
     | None -> ((Inr EEnd), (ended s)))
  | Reserve (_, k) -> run_phys b k s

(** val logical : phys -> n list **)

let logical s =
  app s.win s.rest

(** val phys_init : n list -> phys **)

let phys_init input =
  { win = []; rest = input; eof = false }

type presence =
| Mand
| MandNE
| Always
| Opt
| NonEmpty

type ty =
| TU of n
| TI
| TBool
| TText
| TBytes
| TTime
| TArr of ty
| TIdx
| TMap of bool * fields
and fields =
| FNil
| FCons of z * presence * ty * fields

type val0 =
| VN of n
| VZ of z
| VB of bool
| VS of n list
| VL of val0 list
| VR of val0 option list

(** val op_uint : n -> n -> eop **)

let op_uint bits n0 =
  if N.eqb bits (Npos (XO (XO (XO XH))))
  then OU8 n0
  else if N.eqb bits (Npos (XO (XO (XO (XO XH)))))
       then OU16 n0
       else if N.eqb bits (Npos (XO (XO (XO (XO (XO XH))))))
            then OU32 n0
            else OU64 n0

(** val op_key : bool -> z -> eop **)

let op_key signed_keys k =
  if signed_keys then OI8 k else OU8 (Z.to_N k)

(** val present : presence -> val0 option -> bool **)

let present p = function
| Some x ->
  (match p with
   | NonEmpty ->
     (match x with
      | VL xs -> (match xs with
                  | [] -> false
                  | _ :: _ -> true)
      | _ -> true)
   | _ -> true)
| None -> false

(** val count_present : fields -> val0 option list -> n **)

let rec count_present fs vs =
  match fs with
  | FNil -> N0
  | FCons (_, p, _, r) ->
    (match vs with
     | [] -> N0
     | v :: vs' ->
       N.add (if present p v then Npos XH else N0) (count_present r vs'))

(** val write_val : ty -> val0 -> eop list **)

let rec write_val t v =
  match t with
  | TU bits -> (match v with
                | VN n0 -> (op_uint bits n0) :: []
                | _ -> [])
  | TI -> (match v with
           | VZ z0 -> (OI64 z0) :: []
           | _ -> [])
  | TBool -> (match v with
              | VB b -> (OBool b) :: []
              | _ -> [])
  | TText -> (match v with
              | VS bs -> (OText bs) :: []
              | _ -> [])
  | TBytes -> (match v with
               | VS bs -> (OBytes bs) :: []
               | _ -> [])
  | TTime ->
    (match v with
     | VL xs ->
       (match xs with
        | [] -> []
        | v0 :: l ->
          (match v0 with
           | VN s ->
             (match l with
              | [] -> []
              | v1 :: l0 ->
                (match v1 with
                 | VN k ->
                   (match l0 with
                    | [] ->
                      (OArr (Npos (XO XH))) :: ((OU64 s) :: ((OU64 k) :: []))
                    | _ :: _ -> [])
                 | _ -> []))
           | _ -> []))
     | _ -> [])
  | TArr e ->
    (match v with
     | VL xs -> (OArr (N.of_nat (length xs))) :: (flat_map (write_val e) xs)
     | _ -> [])
  | TIdx ->
    (match v with
     | VL xs ->
       (OArr
         (N.of_nat (length xs))) :: (flat_map (fun x ->
                                      match x with
                                      | VN n0 -> (OU32 n0) :: []
                                      | _ -> []) xs)
     | _ -> [])
  | TMap (sk, fs) ->
    (match v with
     | VR vs -> (OMap (count_present fs vs)) :: (write_fields sk fs vs)
     | _ -> [])

(** val write_fields : bool -> fields -> val0 option list -> eop list **)

and write_fields sk fs vs =
  match fs with
  | FNil -> []
  | FCons (k, p, t, r) ->
    (match vs with
     | [] -> []
     | v :: vs' ->
       app
         (match v with
          | Some x ->
            if present p v then (op_key sk k) :: (write_val t x) else []
          | None -> []) (write_fields sk r vs'))

type has_ty = __

(** val read_time : val0 prog **)

let read_time =
  bind read_array_start (fun st ->
    let (n0, indef) = st in
    if indef
    then bind peek_type (fun pk ->
           match pk with
           | Some _ ->
             bind read_unsigned (fun s ->
               bind peek_type (fun pk0 ->
                 match pk0 with
                 | Some _ ->
                   bind read_unsigned (fun k ->
                     bind peek_type (fun pk1 ->
                       match pk1 with
                       | Some _ -> Throw EDec
                       | None ->
                         bind read_break (fun _ -> Ret (VL ((VN s) :: ((VN
                           k) :: []))))))
                 | None -> bind read_break (fun _ -> Throw EDec)))
           | None -> bind read_break (fun _ -> Throw EDec))
    else if N.eqb n0 N0
         then Throw EDec
         else bind read_unsigned (fun s ->
                if N.eqb n0 (Npos XH)
                then Throw EDec
                else bind read_unsigned (fun k ->
                       if N.eqb n0 (Npos (XO XH))
                       then Ret (VL ((VN s) :: ((VN k) :: [])))
                       else Throw EDec)))

(** val arr_loop :
    val0 prog -> nat -> n -> bool -> val0 list -> val0 list prog **)

let rec arr_loop rd g n0 indef racc =
  if (&&) (N.eqb n0 N0) (negb indef)
  then Ret (frev racc)
  else (match g with
        | O -> Throw EFuel
        | S g' ->
          if indef
          then bind peek_type (fun pk ->
                 match pk with
                 | Some _ ->
                   bind rd (fun v ->
                     arr_loop rd g' (N.sub n0 (Npos XH)) indef (v :: racc))
                 | None -> bind read_break (fun _ -> Ret (frev racc)))
          else bind rd (fun v ->
                 arr_loop rd g' (N.sub n0 (Npos XH)) indef (v :: racc)))

(** val read_arr : val0 prog -> nat -> val0 prog **)

let read_arr rd g =
  bind read_array_start (fun st ->
    bind (arr_loop rd g (fst st) (snd st) []) (fun xs -> Ret (VL xs)))

(** val read_idx : nat -> val0 prog **)

let read_idx g =
  bind read_array_start (fun st -> Reserve ((reserve_req (fst st)),
    (bind
      (arr_loop
        (bind read_unsigned (fun v -> Ret (VN
          (N.modulo v
            (N.pow (Npos (XO XH)) (Npos (XO (XO (XO (XO (XO XH))))))))))) g
        (fst st) (snd st) []) (fun xs -> Ret (VL xs)))))

(** val set_nth : nat -> 'a1 -> 'a1 list -> 'a1 list **)

let rec set_nth i x l =
  match i with
  | O -> (match l with
          | [] -> []
          | _ :: l' -> x :: l')
  | S i' -> (match l with
             | [] -> []
             | a :: l' -> a :: (set_nth i' x l'))

(** val init_rec : fields -> val0 option list **)

let rec init_rec = function
| FNil -> []
| FCons (_, p, _, r) ->
  (match p with
   | NonEmpty -> Some (VL [])
   | _ -> None) :: (init_rec r)

(** val mand_ok : fields -> val0 option list -> bool **)

let rec mand_ok fs vs =
  match fs with
  | FNil -> true
  | FCons (_, p, _, r) ->
    (match vs with
     | [] -> true
     | v :: vs' ->
       (&&)
         (match p with
          | Mand -> (match v with
                     | Some _ -> true
                     | None -> false)
          | MandNE ->
            (match v with
             | Some v0 ->
               (match v0 with
                | VL xs -> (match xs with
                            | [] -> false
                            | _ :: _ -> true)
                | _ -> true)
             | None -> false)
          | _ -> true) (mand_ok r vs'))

(** val zero_of : ty -> val0 **)

let zero_of = function
| TU _ -> VN N0
| TI -> VZ Z0
| TBool -> VB false
| TText -> VS []
| TBytes -> VS []
| TTime -> VL ((VN N0) :: ((VN N0) :: []))
| TMap (_, _) -> VR []
| _ -> VL []

(** val fill_always : fields -> val0 option list -> val0 option list **)

let rec fill_always fs vs =
  match fs with
  | FNil -> vs
  | FCons (_, p, t, r) ->
    (match vs with
     | [] -> vs
     | v :: vs' ->
       (match p with
        | Always -> (match v with
                     | Some _ -> v
                     | None -> Some (zero_of t))
        | _ -> v) :: (fill_always r vs'))

(** val map_loop :
    (z -> (nat * val0 prog) option) -> unit prog -> nat -> n -> bool -> val0
    option list -> val0 option list prog **)

let rec map_loop rdk sk g n0 indef rec0 =
  if (&&) (N.eqb n0 N0) (negb indef)
  then Ret rec0
  else (match g with
        | O -> Throw EFuel
        | S g' ->
          let body =
            bind read_integer (fun key ->
              match rdk key with
              | Some p ->
                let (i, rd) = p in
                bind rd (fun v ->
                  map_loop rdk sk g' (N.sub n0 (Npos XH)) indef
                    (set_nth i (Some v) rec0))
              | None ->
                bind sk (fun _ ->
                  map_loop rdk sk g' (N.sub n0 (Npos XH)) indef rec0))
          in
          if indef
          then bind peek_type (fun pk ->
                 match pk with
                 | Some _ -> body
                 | None -> bind read_break (fun _ -> Ret rec0))
          else body)

(** val read_val : nat -> ty -> val0 prog **)

let rec read_val g = function
| TU bits ->
  bind read_unsigned (fun v -> Ret (VN
    (N.modulo v (N.pow (Npos (XO XH)) bits))))
| TI -> bind read_integer (fun z0 -> Ret (VZ z0))
| TBool -> bind read_bool (fun b -> Ret (VB b))
| TText -> bind (read_textstring g) (fun s -> Ret (VS s))
| TBytes -> bind (read_bytestring g) (fun s -> Ret (VS s))
| TTime -> read_time
| TArr e -> read_arr (read_val g e) g
| TIdx -> read_idx g
| TMap (_, fs) ->
  bind read_map_start (fun st ->
    bind
      (map_loop (find_field g fs O) (skip_item g) g (fst st) (snd st)
        (init_rec fs)) (fun rec0 ->
      if mand_ok fs rec0 then Ret (VR (fill_always fs rec0)) else Throw EDec))

(** val find_field : nat -> fields -> nat -> z -> (nat * val0 prog) option **)

and find_field g fs i x =
  match fs with
  | FNil -> None
  | FCons (k, _, t, r) ->
    if Z.eqb x k then Some (i, (read_val g t)) else find_field g r (S i) x

(** val u8 : ty **)

let u8 =
  TU (Npos (XO (XO (XO XH))))

(** val u16 : ty **)

let u16 =
  TU (Npos (XO (XO (XO (XO XH)))))

(** val u32 : ty **)

let u32 =
  TU (Npos (XO (XO (XO (XO (XO XH))))))

(** val u64 : ty **)

let u64 =
  TU (Npos (XO (XO (XO (XO (XO (XO XH)))))))

(** val mk_fields : ((z * presence) * ty) list -> fields **)

let rec mk_fields = function
| [] -> FNil
| p0 :: r ->
  let (p1, t) = p0 in let (k, p) = p1 in FCons (k, p, t, (mk_fields r))

(** val s_ : ((z * presence) * ty) list -> ty **)

let s_ l =
  TMap (false, (mk_fields l))

(** val storageHints : ty **)

let storageHints =
  s_ (((Z0, Mand), u32) :: ((((Zpos XH), Mand), u32) :: ((((Zpos (XO XH)),
    Mand), u8) :: ((((Zpos (XI XH)), Mand), u8) :: []))))

(** val storageParameters : ty **)

let storageParameters =
  s_ (((Z0, Mand), u64) :: ((((Zpos XH), Mand), u64) :: ((((Zpos (XO XH)),
    Mand), storageHints) :: ((((Zpos (XI XH)), Mand), (TArr u8)) :: ((((Zpos
    (XO (XO XH))), Mand), (TArr u16)) :: ((((Zpos (XI (XO XH))), Opt),
    u8) :: ((((Zpos (XO (XI XH))), Opt), u8) :: ((((Zpos (XI (XI XH))), Opt),
    u8) :: ((((Zpos (XO (XO (XO XH)))), Opt), u8) :: ((((Zpos (XI (XO (XO
    XH)))), Opt), u8) :: ((((Zpos (XO (XI (XO XH)))), Opt),
    TText) :: ((((Zpos (XI (XI (XO XH)))), Opt), TText) :: []))))))))))))

(** val collectionParameters : ty **)

let collectionParameters =
  s_ (((Z0, Opt), u64) :: ((((Zpos XH), Opt), u64) :: ((((Zpos (XO XH)),
    Opt), u64) :: ((((Zpos (XI XH)), Opt), TBool) :: ((((Zpos (XO (XO XH))),
    NonEmpty), (TArr TText)) :: ((((Zpos (XI (XO XH))), NonEmpty), (TArr
    TBytes)) :: ((((Zpos (XO (XI XH))), NonEmpty), (TArr u16)) :: ((((Zpos
    (XI (XI XH))), Opt), TText) :: ((((Zpos (XO (XO (XO XH)))), Opt),
    TText) :: ((((Zpos (XI (XO (XO XH)))), Opt), TText) :: []))))))))))

(** val blockParameters : ty **)

let blockParameters =
  s_ (((Z0, Mand), storageParameters) :: ((((Zpos XH), Opt),
    collectionParameters) :: []))

(** val filePreamble : ty **)

let filePreamble =
  s_ (((Z0, Mand), u8) :: ((((Zpos XH), Mand), u8) :: ((((Zpos (XO XH)),
    Opt), u8) :: ((((Zpos (XI XH)), MandNE), (TArr blockParameters)) :: []))))

(** val classType : ty **)

let classType =
  s_ (((Z0, Mand), u16) :: ((((Zpos XH), Mand), u16) :: []))

(** val queryResponseSignature : ty **)

let queryResponseSignature =
  s_ (((Z0, Opt), u32) :: ((((Zpos XH), Opt), u16) :: ((((Zpos (XO XH)),
    Opt), u8) :: ((((Zpos (XI XH)), Opt), u8) :: ((((Zpos (XO (XO XH))),
    Opt), u8) :: ((((Zpos (XI (XO XH))), Opt), u8) :: ((((Zpos (XO (XI XH))),
    Opt), u16) :: ((((Zpos (XI (XI XH))), Opt), u16) :: ((((Zpos (XO (XO (XO
    XH)))), Opt), u32) :: ((((Zpos (XI (XO (XO XH)))), Opt), u16) :: ((((Zpos
    (XO (XI (XO XH)))), Opt), u32) :: ((((Zpos (XI (XI (XO XH)))), Opt),
    u16) :: ((((Zpos (XO (XO (XI XH)))), Opt), u16) :: ((((Zpos (XI (XO (XI
    XH)))), Opt), u8) :: ((((Zpos (XO (XI (XI XH)))), Opt), u16) :: ((((Zpos
    (XI (XI (XI XH)))), Opt), u32) :: ((((Zpos (XO (XO (XO (XO XH))))), Opt),
    u16) :: [])))))))))))))))))

(** val question : ty **)

let question =
  s_ (((Z0, Mand), u32) :: ((((Zpos XH), Mand), u32) :: []))

(** val rR : ty **)

let rR =
  s_ (((Z0, Mand), u32) :: ((((Zpos XH), Mand), u32) :: ((((Zpos (XO XH)),
    Opt), u32) :: ((((Zpos (XI XH)), Opt), u32) :: []))))

(** val malformedMessageData : ty **)

let malformedMessageData =
  s_ (((Z0, Opt), u32) :: ((((Zpos XH), Opt), u16) :: ((((Zpos (XO XH)),
    Opt), u8) :: ((((Zpos (XI XH)), Opt), TBytes) :: []))))

(** val responseProcessingData : ty **)

let responseProcessingData =
  s_ (((Z0, Opt), u32) :: ((((Zpos XH), Opt), u8) :: []))

(** val queryResponseExtended : ty **)

let queryResponseExtended =
  s_ (((Z0, Opt), u32) :: ((((Zpos XH), Opt), u32) :: ((((Zpos (XO XH)),
    Opt), u32) :: ((((Zpos (XI XH)), Opt), u32) :: []))))

(** val blockPreamble : ty **)

let blockPreamble =
  s_ (((Z0, Always), TTime) :: ((((Zpos XH), Opt), u32) :: []))

(** val blockStatistics : ty **)

let blockStatistics =
  s_ (((Z0, Opt), u32) :: ((((Zpos XH), Opt), u32) :: ((((Zpos (XO XH)),
    Opt), u32) :: ((((Zpos (XI XH)), Opt), u32) :: ((((Zpos (XO (XO XH))),
    Opt), u32) :: ((((Zpos (XI (XO XH))), Opt), u32) :: []))))))

(** val queryResponse : ty **)

let queryResponse =
  TMap (true,
    (mk_fields (((Z0, Opt), u64) :: ((((Zpos XH), Opt), u32) :: ((((Zpos (XO
      XH)), Opt), u16) :: ((((Zpos (XI XH)), Opt), u16) :: ((((Zpos (XO (XO
      XH))), Opt), u32) :: ((((Zpos (XI (XO XH))), Opt), u8) :: ((((Zpos (XO
      (XI XH))), Opt), TI) :: ((((Zpos (XI (XI XH))), Opt), u32) :: ((((Zpos
      (XO (XO (XO XH)))), Opt), u64) :: ((((Zpos (XI (XO (XO XH)))), Opt),
      u64) :: ((((Zpos (XO (XI (XO XH)))), Opt),
      responseProcessingData) :: ((((Zpos (XI (XI (XO XH)))), Opt),
      queryResponseExtended) :: ((((Zpos (XO (XO (XI XH)))), Opt),
      queryResponseExtended) :: ((((Zneg XH), Opt), TText) :: ((((Zneg (XO
      XH)), Opt), TText) :: ((((Zneg (XI XH)), Opt),
      TI) :: []))))))))))))))))))

(** val addressEventCount : ty **)

let addressEventCount =
  s_ (((Z0, Mand), u8) :: ((((Zpos XH), Opt), u8) :: ((((Zpos (XO XH)),
    Mand), u32) :: ((((Zpos (XI XH)), Opt), u8) :: ((((Zpos (XO (XO XH))),
    Mand), u64) :: [])))))

(** val malformedMessage : ty **)

let malformedMessage =
  s_ (((Z0, Opt), u64) :: ((((Zpos XH), Opt), u32) :: ((((Zpos (XO XH)),
    Opt), u16) :: ((((Zpos (XI XH)), Opt), u32) :: []))))

(** val blockTables : ty **)

let blockTables =
  s_ (((Z0, NonEmpty), (TArr TBytes)) :: ((((Zpos XH), NonEmpty), (TArr
    classType)) :: ((((Zpos (XO XH)), NonEmpty), (TArr TBytes)) :: ((((Zpos
    (XI XH)), NonEmpty), (TArr queryResponseSignature)) :: ((((Zpos (XO (XO
    XH))), NonEmpty), (TArr TIdx)) :: ((((Zpos (XI (XO XH))), NonEmpty),
    (TArr question)) :: ((((Zpos (XO (XI XH))), NonEmpty), (TArr
    TIdx)) :: ((((Zpos (XI (XI XH))), NonEmpty), (TArr rR)) :: ((((Zpos (XO
    (XO (XO XH)))), NonEmpty), (TArr malformedMessageData)) :: [])))))))))

(** val block : ty **)

let block =
  s_ (((Z0, Mand), blockPreamble) :: ((((Zpos XH), Opt),
    blockStatistics) :: ((((Zpos (XO XH)), Opt), blockTables) :: ((((Zpos (XI
    XH)), NonEmpty), (TArr queryResponse)) :: ((((Zpos (XO (XO XH))),
    NonEmpty), (TArr addressEventCount)) :: ((((Zpos (XI (XO XH))),
    NonEmpty), (TArr malformedMessage)) :: []))))))

(** val write_struct : ty -> val0 -> n list * n **)

let write_struct t v =
  let (e, rs) = eruns enc_init (write_val t v) in
  ((stream (flush e)), (fold_left N.add rs N0))
