(* SpecEnc.v — RFC 8949 preferred (shortest-form) serialisation, written independently of the code:
   no shifts, no bit-or, only value ranges, division and remainder.  Specification side. *)
Require Import Base.
Local Open Scope N_scope.

(* head of an item with major type code [major] (already shifted: 0,32,..,224) and argument [v] *)
Definition spec_head (major v : N) : list N :=
  if v <? 24 then [major + v]
  else if v <? 256 then (major + 24) :: be 1 v
  else if v <? 65536 then (major + 25) :: be 2 v
  else if v <? 4294967296 then (major + 26) :: be 4 v
  else (major + 27) :: be 8 v.

Definition spec_uint (v : N) : list N := spec_head 0 v.
(* negative integer z < 0 is encoded as major 1 with argument -1 - z *)
Definition spec_int (z : Z) : list N :=
  if (z <? 0)%Z then spec_head 32 (Z.to_N (-1 - z)) else spec_head 0 (Z.to_N z).
Definition spec_bytes (bs : list N) : list N := spec_head 64 (N.of_nat (length bs)) ++ bs.
Definition spec_text (bs : list N) : list N := spec_head 96 (N.of_nat (length bs)) ++ bs.
Definition spec_array_start (n : N) : list N := spec_head 128 n.
Definition spec_map_start (n : N) : list N := spec_head 160 n.
Definition spec_bool (b : bool) : list N := [if b then 245 else 244].   (* 0xF5 / 0xF4 *)
Definition spec_indef_array : list N := [159].                          (* 0x9F *)
Definition spec_indef_map : list N := [191].                            (* 0xBF *)
Definition spec_break : list N := [255].                                (* 0xFF *)

Lemma spec_head_length_le major v : (length (spec_head major v) <= 9)%nat.
Proof. unfold spec_head. repeat match goal with |- context [if ?c then _ else _] => destruct c end; cbn; lia. Qed.
