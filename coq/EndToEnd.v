(* EndToEnd.v — composition: buffer records -> blocks -> bytes of the outputs -> file reader -> generic-record readers.
   For every admissible history of API calls the records obtained by reading all outputs in rotation order (then the open
   output as destruction would close it, then the block still buffered) are exactly the submitted records with their
   hint-disabled members removed, in submission order, each exactly once. *)
Require Import Base Cbor EncoderModel DecoderModel Schema SchemaProofs Timestamp Block BlockProofs Exporter ExporterProofs
               E2ESpec BlockDecode ViewProofs AecView BlockRead FileProofs.
Local Open Scope N_scope.

(* the generic readers only look at the nine lists *)
Section TblExt.
  Variables t1 t2 : list (option val).
  Hypothesis H : forall i, lst (nth_o t1 i) = lst (nth_o t2 i).
  Lemma tl_get_ext i ix : tl_get t1 i ix = tl_get t2 i ix.
  Proof. unfold tl_get. destruct ix as [[n| | | | |]|]; auto. rewrite H. reflexivity. Qed.
  Lemma gen_qs_ext ixs : gen_qs t1 ixs = gen_qs t2 ixs.
  Proof. induction ixs as [|ix r IH]; cbn [gen_qs]; auto. rewrite IH, !tl_get_ext. unfold obind. destruct (tl_get t2 5 (Some ix)); auto. rewrite !tl_get_ext. reflexivity. Qed.
  Lemma gen_rrs_ext ixs : gen_rrs t1 ixs = gen_rrs t2 ixs.
  Proof. induction ixs as [|ix r IH]; cbn [gen_rrs]; auto. rewrite IH, !tl_get_ext. unfold obind. destruct (tl_get t2 7 (Some ix)); auto. rewrite !tl_get_ext. reflexivity. Qed.
  Lemma gen_qlist_ext ix : gen_qlist t1 ix = gen_qlist t2 ix.
  Proof. unfold gen_qlist. destruct ix; auto. rewrite tl_get_ext. unfold obind. destruct (tl_get t2 4 _); auto. rewrite gen_qs_ext. reflexivity. Qed.
  Lemma gen_rrlist_ext ix : gen_rrlist t1 ix = gen_rrlist t2 ix.
  Proof. unfold gen_rrlist. destruct ix; auto. rewrite tl_get_ext. unfold obind. destruct (tl_get t2 6 _); auto. rewrite gen_rrs_ext. reflexivity. Qed.
  Lemma gen_qr_ext it : gen_qr t1 it = gen_qr t2 it.
  Proof.
    unfold gen_qr, obind. rewrite !tl_get_ext.
    repeat match goal with
           | |- context [match tl_get t2 ?b ?c with Some _ => _ | None => _ end] => destruct (tl_get t2 b c); [|reflexivity]; rewrite ?tl_get_ext
           end.
    rewrite !gen_qlist_ext, !gen_rrlist_ext. reflexivity.
  Qed.
  Lemma gen_mm_ext it : gen_mm t1 it = gen_mm t2 it.
  Proof.
    unfold gen_mm, obind. rewrite !tl_get_ext.
    repeat match goal with
           | |- context [match tl_get t2 ?b ?c with Some _ => _ | None => _ end] => destruct (tl_get t2 b c); [|reflexivity]; rewrite ?tl_get_ext
           end.
    reflexivity.
  Qed.
  Lemma gen_aec_ext kc : gen_aec t1 kc = gen_aec t2 kc.
  Proof. unfold gen_aec, obind. rewrite tl_get_ext. reflexivity. Qed.
End TblExt.

Lemma rb_tables_lst b i : lst (nth_o (r_tables (rb_of b)) i) = lst (nth_o (tbs_of_tables (b_tb b)) i).
Proof.
  unfold rb_of. cbn [r_tables]. destruct (b_tb b) as [a c d e f g h k l]. unfold tables_val, tbs_of_tables, ne_list.
  cbn [t_ip t_ct t_nr t_sig t_qlist t_qrr t_rrlist t_rr t_mmd].
  destruct a, c, d, e, f, g, h, k, l; try reflexivity.
  do 10 (destruct i as [|i]; [reflexivity|]). reflexivity.
Qed.

(* what the application gets from a block it has read *)
Definition rb_view_qr (rb : rblock) : list (option val) := map (gen_qr (r_tables rb)) (r_qrs rb).
Definition rb_view_mm (rb : rblock) : list (option val) := map (gen_mm (r_tables rb)) (r_mms rb).
Lemma rb_view_qr_of b : rb_view_qr (rb_of b) = blk_view_qr b.
Proof. unfold rb_view_qr, blk_view_qr. cbn [r_qrs rb_of]. apply map_ext. intros it. apply gen_qr_ext. apply rb_tables_lst. Qed.
Lemma rb_view_mm_of b : rb_view_mm (rb_of b) = blk_view_mm b.
Proof. unfold rb_view_mm, blk_view_mm. cbn [r_mms rb_of]. apply map_ext. intros it. apply gen_mm_ext. apply rb_tables_lst. Qed.

Definition rb_view_aec (rb : rblock) : list (option val) := map (gen_aec (r_tables rb)) (r_aecs rb).
Lemma rb_view_aec_of b : rb_view_aec (rb_of b) = blk_view_aec b.
Proof. unfold rb_view_aec, blk_view_aec. cbn [r_aecs rb_of]. apply map_ext. intros it. apply gen_aec_ext. apply rb_tables_lst. Qed.
(* total count of decoded key k over the blocks read from one file *)
Definition file_aec_total (k : list (option val)) (pb : val * list blk) : N :=
  fold_right (fun rb a => dec_total k (rb_view_aec rb) + a) 0 (map rb_of (snd pb)).
Lemma file_aec_total_eq k pb : file_aec_total k pb = fold_right (fun b a => dec_total k (blk_view_aec b) + a) 0 (snd pb).
Proof. unfold file_aec_total. destruct pb as [p bs]. cbn [snd]. induction bs as [|b bs IH]; cbn [map fold_right]; [reflexivity|]. rewrite rb_view_aec_of, IH. reflexivity. Qed.
Lemma fold_total_flat k (l : list (val * list blk)) :
  fold_right (fun b a => dec_total k (blk_view_aec b) + a) 0 (flat_map snd l) = fold_right (fun pb a => file_aec_total k pb + a) 0 l.
Proof. induction l as [|pb l IH]; cbn [flat_map fold_right]; [reflexivity|]. rewrite fold_total_app, IH, file_aec_total_eq. reflexivity. Qed.

Definition file_view_qr (pb : val * list blk) : list (option val) := flat_map rb_view_qr (map rb_of (snd pb)).
Definition file_view_mm (pb : val * list blk) : list (option val) := flat_map rb_view_mm (map rb_of (snd pb)).
Lemma file_view_qr_eq pb : file_view_qr pb = flat_map blk_view_qr (snd pb).
Proof. unfold file_view_qr. destruct pb as [p bs]. cbn [snd]. induction bs as [|b bs IH]; cbn [map flat_map]; [reflexivity|]. rewrite rb_view_qr_of, IH. reflexivity. Qed.
Lemma file_view_mm_eq pb : file_view_mm pb = flat_map blk_view_mm (snd pb).
Proof. unfold file_view_mm. destruct pb as [p bs]. cbn [snd]. induction bs as [|b bs IH]; cbn [map flat_map]; [reflexivity|]. rewrite rb_view_mm_of, IH. reflexivity. Qed.

Lemma flat_map_flat_map {A B C} (f : B -> list C) (g : A -> list B) l : flat_map f (flat_map g l) = flat_map (fun a => flat_map f (g a)) l.
Proof. induction l as [|a l IH]; cbn [flat_map]; auto. rewrite flat_map_app, IH. reflexivity. Qed.

Theorem end_to_end pre ops : typed_pre pre -> adm0 pre ops -> typed_x (xrun (x_new pre) ops) ->
  let x := xrun (x_new pre) ops in
  exists (last : val) cur closed,
    (* the outputs, oldest first, then the open one as destruction closes it: bytes, and what the reader returns for them *)
    rev (x_closed x) = map (fun pb => file_bytes (fst pb) (snd pb)) (rev closed) /\
    destroy x = file_bytes last cur /\
    Forall reads_back (rev closed ++ [(last, cur)]) /\
    (* the records in those files, in that order, followed by the records still buffered = the records submitted *)
    flat_map file_view_qr (rev closed ++ [(last, cur)]) ++ blk_view_qr (x_blk x) = map Some (log_qr (x_new pre) ops) /\
    flat_map file_view_mm (rev closed ++ [(last, cur)]) ++ blk_view_mm (x_blk x) = map Some (log_mm (x_new pre) ops) /\
    (* every address-event key: its total count over all files and the buffered block = the number of accepted submissions *)
    (forall k, fold_right (fun pb a => file_aec_total k pb + a) 0 (rev closed ++ [(last, cur)]) + dec_total k (blk_view_aec (x_blk x))
               = log_aec (x_new pre) ops k).
Proof.
  intros Tp A T x. destruct (history_outputs pre ops Tp A T) as (last & cur & closed & Hc & Hd & Hdone & Hr). fold x in Hc, Hd, Hdone, Hr.
  destruct (xrun_view ops (x_new pre) (x_new_den pre)) as (Vq & Vm & _). fold x in Vq, Vm.
  pose proof (xrun_view_aec ops (x_new pre) (x_new_aec_inv pre)) as Va. fold x in Va.
  assert (V0q : view_qrs (x_new pre) = []).
  { unfold view_qrs, x_new. destruct pre as [| | | | |[|ma [|mi [|pv [|[[| | | |ps|]|] [|? ?]]]]]]; reflexivity. }
  assert (V0m : view_mms (x_new pre) = []).
  { unfold view_mms, x_new. destruct pre as [| | | | |[|ma [|mi [|pv [|[[| | | |ps|]|] [|? ?]]]]]]; reflexivity. }
  assert (V0a : forall k, view_aec_total (x_new pre) k = 0).
  { intros k. unfold view_aec_total, x_new. destruct pre as [| | | | |[|ma [|mi [|pv [|[[| | | |ps|]|] [|? ?]]]]]]; reflexivity. }
  rewrite V0q in Vq. rewrite V0m in Vm. cbn [app] in Vq, Vm.
  exists last, cur, closed. split; [rewrite Hc, map_rev; reflexivity|]. split; [exact Hd|]. split.
  - apply Forall_app. split; [apply Forall_rev; exact (Forall_inv_tail Hr)|constructor; [exact (Forall_inv Hr)|constructor]].
  - split; [|split].
    + rewrite <- Vq. unfold view_qrs. rewrite Hdone.
      rewrite !flat_map_app. cbn [flat_map]. rewrite !app_nil_r, !file_view_qr_eq. cbn [snd].
      rewrite !flat_map_flat_map. f_equal. f_equal. apply flat_map_ext. intros pb. apply file_view_qr_eq.
    + rewrite <- Vm. unfold view_mms. rewrite Hdone.
      rewrite !flat_map_app. cbn [flat_map]. rewrite !app_nil_r, !file_view_mm_eq. cbn [snd].
      rewrite !flat_map_flat_map. f_equal. f_equal. apply flat_map_ext. intros pb. apply file_view_mm_eq.
    + intros k. specialize (Va k). rewrite V0a, N.add_0_l in Va. rewrite <- Va. unfold view_aec_total. rewrite Hdone. f_equal.
      rewrite fold_total_app, fold_total_flat.
      assert (Hf : forall l1 l2, fold_right (fun pb a => file_aec_total k pb + a) 0 (l1 ++ l2) =
                                 fold_right (fun pb a => file_aec_total k pb + a) 0 l1 + fold_right (fun pb a => file_aec_total k pb + a) 0 l2).
      { induction l1 as [|p l1 IH]; intros l2; cbn [app fold_right]; [lia|]. rewrite IH. lia. }
      rewrite Hf. cbn [fold_right]. rewrite file_aec_total_eq. cbn [snd]. lia.
Qed.

(* ---------- C02 / C11: every index the reader follows resolves ----------
   Over every history, every item of every written block (and of the buffered one) decodes in its block's final tables: the client /
   server address, signature, class/type, name, bailiwick, section-list, question, RR, RDATA and malformed-message-data indices stored
   in items and in table entries all address existing entries of the right table ([gen_qr] / [gen_mm] return None as soon as one does not). *)
Lemma all_some_of_map {A} (l : list (option A)) (l' : list A) : l = map Some l' -> Forall (fun o => o <> None) l.
Proof. intros ->. apply Forall_forall. intros o Ho. apply in_map_iff in Ho. destruct Ho as (a & <- & _). discriminate. Qed.
Theorem indices_resolve pre ops : let x := xrun (x_new pre) ops in
  Forall (fun b => Forall (fun o => o <> None) (blk_view_qr b) /\ Forall (fun o => o <> None) (blk_view_mm b)) (x_done x ++ [x_blk x]).
Proof.
  intros x. destruct (xrun_view ops (x_new pre) (x_new_den pre)) as (Vq & Vm & _). fold x in Vq, Vm.
  assert (V0q : view_qrs (x_new pre) = []).
  { unfold view_qrs, x_new. destruct pre as [| | | | |[|ma [|mi [|pv [|[[| | | |ps|]|] [|? ?]]]]]]; reflexivity. }
  assert (V0m : view_mms (x_new pre) = []).
  { unfold view_mms, x_new. destruct pre as [| | | | |[|ma [|mi [|pv [|[[| | | |ps|]|] [|? ?]]]]]]; reflexivity. }
  rewrite V0q in Vq. rewrite V0m in Vm. cbn [app] in Vq, Vm.
  apply all_some_of_map in Vq. apply all_some_of_map in Vm. unfold view_qrs in Vq. unfold view_mms in Vm.
  rewrite Forall_forall in *. intros b Hb. apply in_app_or in Hb. split; apply Forall_forall; intros o Ho.
  - apply Vq. apply in_or_app. destruct Hb as [Hb|[<-|[]]]; [left; apply in_flat_map; eauto|right; exact Ho].
  - apply Vm. apply in_or_app. destruct Hb as [Hb|[<-|[]]]; [left; apply in_flat_map; eauto|right; exact Ho].
Qed.
