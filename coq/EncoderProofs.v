(* EncoderProofs.v — every encoder operation extends the logical output stream by exactly the
   RFC 8949 preferred encoding of its argument, returns that length, and keeps the buffer invariant,
   for every fill level of the staging buffer (symbolically) and every argument in the operand type's range. *)
Require Import Base SpecEnc EncoderModel.
Local Open Scope N_scope.

Definition majors : list N := [0; 32; 64; 96; 128; 160; 192; 224].

Definition inv (e : enc) : Prop := N.of_nat (length (buf e)) <= BUFFER_SIZE.

Lemma inv_init : inv enc_init.
Proof. unfold inv, enc_init, BUFFER_SIZE; cbn; lia. Qed.

(* ---- bit facts by exhaustive sweep, lifted to a lemma ---- *)
Lemma lor_add major x : In major majors -> x < 32 -> N.lor major x = major + x.
Proof.
  intros Hm Hx.
  assert (H : forallb (fun m => forallb (fun y => N.lor m y =? m + y) (map N.of_nat (seq 0 32))) majors = true)
    by (vm_compute; reflexivity).
  rewrite forallb_forall in H. specialize (H _ Hm). rewrite forallb_forall in H.
  specialize (H x). rewrite N.eqb_eq in H. apply H.
  apply in_map_iff. exists (N.to_nat x). split; [lia|]. apply in_seq. lia.
Qed.

Lemma byte_shiftr v k : byte (N.shiftr v (8 * N.of_nat k)) = (v / 256 ^ N.of_nat k) mod 256.
Proof.
  unfold byte. rewrite N.shiftr_div_pow2. f_equal. f_equal.
  replace 256 with (2 ^ 8) by reflexivity. rewrite <- N.pow_mul_r. reflexivity.
Qed.

Lemma byte0 v : byte v = (v / 256 ^ N.of_nat 0) mod 256.
Proof. cbn. rewrite N.div_1_r. reflexivity. Qed.

Lemma bs8 v : byte (N.shiftr v 8) = (v / 256 ^ N.of_nat 1) mod 256.
Proof. exact (byte_shiftr v 1). Qed.
Lemma bs16 v : byte (N.shiftr v 16) = (v / 256 ^ N.of_nat 2) mod 256.
Proof. exact (byte_shiftr v 2). Qed.
Lemma bs24 v : byte (N.shiftr v 24) = (v / 256 ^ N.of_nat 3) mod 256.
Proof. exact (byte_shiftr v 3). Qed.
Lemma bs32 v : byte (N.shiftr v 32) = (v / 256 ^ N.of_nat 4) mod 256.
Proof. exact (byte_shiftr v 4). Qed.
Lemma bs40 v : byte (N.shiftr v 40) = (v / 256 ^ N.of_nat 5) mod 256.
Proof. exact (byte_shiftr v 5). Qed.
Lemma bs48 v : byte (N.shiftr v 48) = (v / 256 ^ N.of_nat 6) mod 256.
Proof. exact (byte_shiftr v 6). Qed.
Lemma bs56 v : byte (N.shiftr v 56) = (v / 256 ^ N.of_nat 7) mod 256.
Proof. exact (byte_shiftr v 7). Qed.

(* head size chosen by RFC 8949 preferred serialisation *)
Definition hsize (v : N) : N :=
  if v <? 24 then 1 else if v <? 256 then 2 else if v <? 65536 then 3 else if v <? 4294967296 then 5 else 9.

Lemma spec_head_length major v : N.of_nat (length (spec_head major v)) = hsize v.
Proof.
  unfold spec_head, hsize.
  repeat match goal with |- context [if ?c then _ else _] => destruct c end; reflexivity.
Qed.

Lemma write_int_spec av v major :
  In major majors -> hsize v <= av -> write_int av v major = spec_head major v.
Proof.
  intros Hm Hav. unfold write_int, spec_head, hsize in *.
  destruct (v <? 24) eqn:H24.
  { assert (v <=? 23 = true) as -> by lia. assert (1 <=? av = true) as -> by lia.
    rewrite lor_add by (auto; lia). reflexivity. }
  assert (v <=? 23 = false) as -> by lia.
  destruct (v <? 256) eqn:H256.
  { assert (v <=? 255 = true) as -> by lia. assert (2 <=? av = true) as -> by lia.
    rewrite lor_add by (auto; lia). cbn [be]. rewrite byte0. reflexivity. }
  assert (v <=? 255 = false) as -> by lia.
  destruct (v <? 65536) eqn:H16.
  { assert (v <=? 65535 = true) as -> by lia. assert (3 <=? av = true) as -> by lia.
    rewrite lor_add by (auto; lia). cbn [be].
    rewrite bs8, byte0. reflexivity. }
  assert (v <=? 65535 = false) as -> by lia.
  destruct (v <? 4294967296) eqn:H32.
  { assert (v <=? 4294967295 = true) as -> by lia. assert (5 <=? av = true) as -> by lia.
    rewrite lor_add by (auto; lia). cbn [be].
    rewrite bs24, bs16, bs8, byte0. reflexivity. }
  assert (v <=? 4294967295 = false) as -> by lia.
  assert (9 <=? av = true) as -> by lia.
  rewrite lor_add by (auto; lia). cbn [be].
  rewrite bs56, bs48, bs40, bs32, bs24, bs16, bs8, byte0. reflexivity.
Qed.

(* ---- state lemmas ---- *)
Lemma stream_flush e : stream (flush e) = stream e.
Proof.
  unfold flush, stream. destruct (buf e) as [|b bs] eqn:E; [rewrite E; reflexivity|].
  cbn [buf chunks rev]. rewrite concat_app. cbn. rewrite !app_nil_r. reflexivity.
Qed.

Lemma avail_flush e : avail (flush e) = BUFFER_SIZE.
Proof.
  unfold flush, avail. destruct (buf e) eqn:E; [rewrite E|]; cbn; lia.
Qed.

Lemma inv_flush e : inv (flush e).
Proof. unfold inv. pose proof (avail_flush e) as H. unfold avail, BUFFER_SIZE in *.
  unfold flush in *. destruct (buf e) eqn:E; [rewrite E in *|]; cbn in *; lia. Qed.

Lemma stream_put e bs : stream (put e bs) = stream e ++ bs.
Proof. unfold stream, put; cbn. rewrite app_assoc. reflexivity. Qed.

Lemma inv_put e bs : inv e -> N.of_nat (length bs) <= avail e -> inv (put e bs).
Proof. unfold inv, put, avail, BUFFER_SIZE; cbn [buf chunks]. rewrite app_length. lia. Qed.

Lemma avail_put e bs : avail (put e bs) = avail e - N.of_nat (length bs).
Proof. unfold avail, put, BUFFER_SIZE; cbn [buf chunks]. rewrite app_length. lia. Qed.

Definition preflush (need : N) (e : enc) : enc := if avail e <? need then flush e else e.

Lemma preflush_spec need e : inv e -> need <= BUFFER_SIZE ->
  stream (preflush need e) = stream e /\ inv (preflush need e) /\ need <= avail (preflush need e).
Proof.
  intros Hi Hn. unfold preflush. destruct (avail e <? need) eqn:E.
  - rewrite stream_flush, avail_flush. auto using inv_flush.
  - repeat split; auto. lia.
Qed.

(* ---- the generic integer-headed operation ---- *)
Lemma op_int_spec need major v e :
  inv e -> In major majors -> hsize v <= need -> need <= BUFFER_SIZE ->
  let '(e', r) := op_int need major v e in
  stream e' = stream e ++ spec_head major v /\ r = N.of_nat (length (spec_head major v)) /\ inv e'.
Proof.
  intros Hi Hm Hs Hn. unfold op_int. fold (preflush need e).
  destruct (preflush_spec need e Hi Hn) as (Hst & Hi1 & Hav).
  rewrite write_int_spec by (auto; lia).
  rewrite stream_put, Hst. repeat split; auto.
  apply inv_put; auto. rewrite spec_head_length. lia.
Qed.

Lemma op_fixed_spec b e : inv e ->
  let '(e', r) := op_fixed b e in stream e' = stream e ++ [b] /\ r = 1 /\ inv e'.
Proof.
  intros Hi. unfold op_fixed. fold (preflush 1 e).
  destruct (preflush_spec 1 e Hi ltac:(unfold BUFFER_SIZE; lia)) as (Hst & Hi1 & Hav).
  assert (avail (preflush 1 e) <? 1 = false) as -> by lia.
  rewrite stream_put, Hst. repeat split; auto. apply inv_put; auto; cbn; lia.
Qed.

(* ---- write_string ---- *)
Lemma write_string_spec : forall fuel e bs,
  inv e -> (length bs + (if (avail e =? 0)%N then 1 else 0) < fuel)%nat ->
  stream (write_string fuel e bs) = stream e ++ bs /\ inv (write_string fuel e bs).
Proof.
  induction fuel as [|f IH]; intros e bs Hi Hf; [lia|].
  cbn [write_string].
  destruct (N.of_nat (length bs) <=? avail e) eqn:E.
  - rewrite stream_put. split; auto. apply inv_put; auto. lia.
  - set (av := N.to_nat (avail e)).
    assert (Hav : (av < length bs)%nat) by (unfold av; lia).
    assert (Hlen : length (firstn av bs) = av) by (rewrite firstn_length; lia).
    assert (Hi2 : inv (put e (firstn av bs))) by (apply inv_put; auto; rewrite Hlen; unfold av; lia).
    specialize (IH (flush (put e (firstn av bs))) (skipn av bs) (inv_flush _)).
    rewrite avail_flush in IH.
    assert (BUFFER_SIZE =? 0 = false) as Hb by reflexivity. rewrite Hb in IH.
    destruct IH as [IH1 IH2].
    { rewrite skipn_length. destruct (avail e =? 0) eqn:E0; [|unfold av; lia]. lia. }
    rewrite IH1, stream_flush, stream_put, <- app_assoc, firstn_skipn. auto.
Qed.

Lemma op_string_spec major bs e :
  inv e -> In major majors -> N.of_nat (length bs) < two64 ->
  let '(e', r) := op_string major bs e in
  stream e' = stream e ++ spec_head major (N.of_nat (length bs)) ++ bs
  /\ r = N.of_nat (length (spec_head major (N.of_nat (length bs)) ++ bs)) /\ inv e'.
Proof.
  intros Hi Hm Hlen. unfold op_string. fold (preflush 9 e).
  destruct (preflush_spec 9 e Hi ltac:(unfold BUFFER_SIZE; lia)) as (Hst & Hi1 & Hav).
  assert (Hh : hsize (N.of_nat (length bs)) <= 9).
  { unfold hsize. repeat match goal with |- context [if ?c then _ else _] => destruct c end; lia. }
  rewrite write_int_spec by (auto; lia).
  set (hd := spec_head major (N.of_nat (length bs))).
  assert (Hi2 : inv (put (preflush 9 e) hd)).
  { apply inv_put; auto. unfold hd. rewrite spec_head_length. lia. }
  destruct (write_string_spec (S (S (length bs))) (put (preflush 9 e) hd) bs Hi2) as [H1 H2].
  { destruct (avail _ =? 0); lia. }
  rewrite H1, stream_put, Hst, <- app_assoc. repeat split; auto.
  rewrite app_length. lia.
Qed.

(* ---- per-operation argument ranges (the C++ operand types) and the specification bytes ---- *)
Definition in_range (o : eop) : Prop :=
  match o with
  | OArr n | OMap n => n < two64                                  (* std::size_t *)
  | OBytes bs | OText bs => N.of_nat (length bs) < two64 /\ bytes_ok bs
  | OU8 v => v < 256 | OU16 v => v < 65536 | OU32 v => v < 4294967296 | OU64 v => v < two64
  | OI8 z => (-128 <= z < 128)%Z | OI16 z => (-32768 <= z < 32768)%Z
  | OI32 z => (-2147483648 <= z < 2147483648)%Z
  | OI64 z => (-9223372036854775808 <= z < 9223372036854775808)%Z
  | _ => True
  end.

Definition spec_enc (o : eop) : list N :=
  match o with
  | OArr n => spec_array_start n
  | OIndefArr => spec_indef_array
  | OMap n => spec_map_start n
  | OIndefMap => spec_indef_map
  | OBytes bs => spec_bytes bs
  | OText bs => spec_text bs
  | OBreak => spec_break
  | OBool b => spec_bool b
  | OU8 v | OU16 v | OU32 v | OU64 v => spec_uint v
  | OI8 z | OI16 z | OI32 z | OI64 z => spec_int z
  end.

Ltac in_majors := unfold majors, T_UNSIGNED, T_NEGATIVE, T_BYTES, T_TEXT, T_ARRAY, T_MAP, T_TAG, T_SIMPLE; cbn; tauto.

Lemma hsize_le_9 v : hsize v <= 9.
Proof. unfold hsize. repeat match goal with |- context [if ?c then _ else _] => destruct c end; lia. Qed.

Lemma op_sint_spec need z e lo :
  inv e -> need <= BUFFER_SIZE -> (- lo <= z < lo)%Z -> hsize (Z.to_N (lo - 1)) <= need ->
  (0 < lo)%Z ->
  let '(e', r) := op_sint need z e in
  stream e' = stream e ++ spec_int z /\ r = N.of_nat (length (spec_int z)) /\ inv e'.
Proof.
  intros Hi Hn Hz Hs Hlo. unfold op_sint, spec_int.
  assert (Hmono : forall a b, a <= b -> hsize a <= hsize b).
  { intros a b Hab. unfold hsize.
    repeat match goal with |- context [if ?c then _ else _] => destruct c eqn:? end; lia. }
  destruct (z <? 0)%Z eqn:E.
  - unfold Z.lnot. replace (Z.pred (- z)) with (-1 - z)%Z by lia.
    apply (op_int_spec need T_NEGATIVE); auto; [in_majors|].
    eapply N.le_trans; [apply Hmono|exact Hs]. lia.
  - apply (op_int_spec need T_UNSIGNED); auto; [in_majors|].
    eapply N.le_trans; [apply Hmono|exact Hs]. lia.
Qed.

(* C06, one step: every public operation, every argument in range, every fill level *)
Theorem estep_spec o e :
  inv e -> in_range o ->
  let '(e', r) := estep e o in
  stream e' = stream e ++ spec_enc o /\ r = N.of_nat (length (spec_enc o)) /\ inv e'.
Proof.
  intros Hi Hr. destruct o; cbn [estep spec_enc in_range] in *.
  - apply (op_int_spec 9 T_ARRAY); auto; [in_majors|apply hsize_le_9|unfold BUFFER_SIZE; lia].
  - apply op_fixed_spec; auto.
  - apply (op_int_spec 9 T_MAP); auto; [in_majors|apply hsize_le_9|unfold BUFFER_SIZE; lia].
  - apply op_fixed_spec; auto.
  - apply (op_string_spec T_BYTES); auto; [in_majors|tauto].
  - apply (op_string_spec T_TEXT); auto; [in_majors|tauto].
  - apply op_fixed_spec; auto.
  - unfold write_bool, spec_bool.
    pose proof (op_int_spec 1 T_SIMPLE (if b then 21 else 20) e Hi ltac:(in_majors)) as H.
    destruct b; cbn in H |- *; apply H; unfold hsize, BUFFER_SIZE; cbn; lia.
  - apply (op_int_spec 2 T_UNSIGNED); auto; [in_majors| |unfold BUFFER_SIZE; lia].
    unfold hsize. repeat match goal with |- context [if ?c then _ else _] => destruct c eqn:? end; lia.
  - apply (op_int_spec 3 T_UNSIGNED); auto; [in_majors| |unfold BUFFER_SIZE; lia].
    unfold hsize. repeat match goal with |- context [if ?c then _ else _] => destruct c eqn:? end; lia.
  - apply (op_int_spec 5 T_UNSIGNED); auto; [in_majors| |unfold BUFFER_SIZE; lia].
    unfold hsize. repeat match goal with |- context [if ?c then _ else _] => destruct c eqn:? end; lia.
  - apply (op_int_spec 9 T_UNSIGNED); auto; [in_majors|apply hsize_le_9|unfold BUFFER_SIZE; lia].
  - apply (op_sint_spec 2 z e 128); auto; try lia; unfold BUFFER_SIZE; cbn; lia.
  - apply (op_sint_spec 3 z e 32768); auto; try lia; unfold BUFFER_SIZE; cbn; lia.
  - apply (op_sint_spec 5 z e 2147483648); auto; try lia; unfold BUFFER_SIZE; cbn; lia.
  - apply (op_sint_spec 9 z e 9223372036854775808); auto; try lia; unfold BUFFER_SIZE; cbn; lia.
Qed.

(* C06, sequences: the output is the concatenation of the encodings in call order; returns are the lengths *)
Theorem eruns_spec : forall ops e,
  inv e -> Forall in_range ops ->
  let '(e', rs) := eruns e ops in
  stream e' = stream e ++ flat_map spec_enc ops
  /\ rs = map (fun o => N.of_nat (length (spec_enc o))) ops
  /\ inv e'.
Proof.
  induction ops as [|o os IH]; intros e Hi Hr; cbn [eruns flat_map map].
  - rewrite app_nil_r. auto.
  - inversion Hr as [|? ? Ho Hos]; subst.
    pose proof (estep_spec o e Hi Ho) as H1. destruct (estep e o) as [e1 r].
    destruct H1 as (Hs1 & Hr1 & Hi1).
    specialize (IH e1 Hi1 Hos). destruct (eruns e1 os) as [e2 rs].
    destruct IH as (Hs2 & Hr2 & Hi2).
    rewrite Hs2, Hs1, <- app_assoc, Hr1, Hr2. auto.
Qed.

(* what reaches the output after a final flush (destructor / rotate_output) is exactly the stream *)
Lemma flush_all e : buf (flush e) = [] /\ concat (rev (chunks (flush e))) = stream e.
Proof.
  pose proof (stream_flush e) as H. unfold stream in *.
  unfold flush in *. destruct (buf e) eqn:E; cbn [buf chunks] in *.
  - rewrite ?E in *. rewrite ?app_nil_r in *. auto.
  - rewrite ?app_nil_r in *. auto.
Qed.
