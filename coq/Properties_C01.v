(* Properties_C01.v — C01: export -> file -> read returns exactly the records that were buffered.
   [C01_end_to_end] is the composition over whole histories (records -> tables/items -> block values -> bytes through the
   encoder -> outputs -> file reader -> block reader -> generic-record readers); the theorems before it are its layers, each
   full-strength.  Address-event totals are proved at the level of block contents ([C01_aec_totals] + blocks read back
   equal), their decoded view is not composed into [C01_end_to_end]; that the values stay inside the ranges of the format
   ([typed_x]) is a hypothesis, decidable by [typed_xb] and evaluated by the harness on every generated history.
   Only statements live here. *)
Require Import Base Cbor EncoderModel DecoderModel DecoderProofs Schema SchemaProofs Timestamp TimestampProofs Block BlockProofs Exporter ExporterProofs Properties_C09
               E2ESpec BlockDecode ViewProofs AecView BlockRead FileProofs EndToEnd TypeCheck.
Local Open Scope N_scope.

(* layer 1 (bytes <-> tree): whatever block value the exporter serialises, the reader's generic structure reader gets the
   same value back — every member, integers over their whole declared range, byte strings bit for bit, lists in order,
   absent members absent — and leaves the following block untouched *)
Theorem C01_block_bytes_roundtrip : forall v g rest, has_ty Schema.Block v ->
  (length (fst (write_struct Schema.Block v)) <= g)%nat ->
  run (read_val g Schema.Block) (fst (write_struct Schema.Block v) ++ rest) = (inl v, rest).
Proof. intros v g rest Ht Hg. apply C09_roundtrip_any; auto. unfold all_descriptors. cbn. tauto. Qed.
Print Assumptions C01_block_bytes_roundtrip.

(* layer 2 (records <-> items): every record handed to the exporter is kept exactly once, in order (C12_conservation) *)
Theorem C01_records_kept : forall x o,
  all_qrs (fst (xstep x o)) = all_qrs x ++ match o with XQr gr _ => stored_qr x gr | _ => [] end /\
  all_mms (fst (xstep x o)) = all_mms x ++ match o with XMm gm _ => stored_mm x gm | _ => [] end.
Proof. intros x o. split; [apply xstep_conserves_qr|apply xstep_conserves_mm]. Qed.
Print Assumptions C01_records_kept.

(* layer 3 (values <-> table indices): the index stored for a value denotes that value when the block is read, whatever
   is added to the block afterwards *)
Theorem C01_index_denotes : forall tb i v tb', let '(tb1, ix) := add_to tb i v in
  tb_ext tb1 tb' -> nth_error (tget tb' i) (N.to_nat ix) = Some v.
Proof.
  intros tb i v tb'. pose proof (add_to_get tb i v) as H. destruct (add_to tb i v) as [tb1 ix]. cbn [fst snd] in H.
  intros He. eapply ext_keeps; eauto.
Qed.
Print Assumptions C01_index_denotes.

(* statistics: a block carries the statistics most recently supplied while it was being filled *)
Theorem C01_statistics : forall old new, with_stats old new = match new with Some s => Some s | None => old end.
Proof. intros old [s|]; reflexivity. Qed.
Print Assumptions C01_statistics.

(* address events: one accepted call adds one to its key's total, nothing else does (C12_conservation, AEC part) *)
Theorem C01_aec_totals : forall x o k,
  aec_total (fst (xstep x o)) k = aec_total x k +
    match o with
    | XAec ga _ => if N.testbit (h_other (b_bp (x_blk x))) 1 then (if val_eqb (aec_key_of x ga) k then 1 else 0) else 0
    | _ => 0
    end.
Proof. exact xstep_conserves_aec. Qed.
Print Assumptions C01_aec_totals.

(* layer 3b (items -> records): what a stored query/response item decodes to — in the tables as they are when it is stored and
   after any later insertion — is the submitted record with exactly the hint-disabled members removed ([exp_qr] never looks
   at a table); and an item is stored iff at least one member survives the hints.  Same for malformed messages. *)
Theorem C01_decode_inverts_build : forall bp gr tb tb', tb_ext (fst (build_qr bp gr tb)) tb' ->
  gen_qr (tbs_of_tables tb') (VR (snd (build_qr bp gr tb))) = Some (VR (exp_qr bp gr)) /\
  filled (snd (build_qr bp gr tb)) = filled (exp_qr bp gr).
Proof. exact gen_build_qr. Qed.
Print Assumptions C01_decode_inverts_build.
Theorem C01_decode_inverts_build_mm : forall gm tb tb', tb_ext (fst (build_mm gm tb)) tb' ->
  gen_mm (tbs_of_tables tb') (VR (snd (build_mm gm tb))) = Some (VR (exp_mm gm)) /\
  filled (snd (build_mm gm tb)) = filled (exp_mm gm).
Proof. exact gen_build_mm. Qed.
Print Assumptions C01_decode_inverts_build_mm.
Theorem C01_decode_aec_key : forall ga tb tb' c, tb_ext (fst (add_to tb T_ip (oval (nth_o ga 3%nat)))) tb' ->
  gen_aec (tbs_of_tables tb')
          (VR [nth_o ga 0%nat; nth_o ga 1%nat; Some (VN (snd (add_to tb T_ip (oval (nth_o ga 3%nat))))); nth_o ga 2%nat; Some (VN 0)], c)
  = Some (exp_aec ga c).
Proof. exact gen_aec_key. Qed.
Print Assumptions C01_decode_aec_key.

(* layer 4 (block value -> block): the block reader applied to the value a block is serialised as returns that block: record
   times exact to the tick (offsets out, absolute times back), address-event counts per key, statistics, tables *)
Theorem C01_block_reads_back : forall ps b, blk_params_ok ps b -> good_blk b ->
  block_of_val ps (blk_val b) = Ret (rb_of b) /\ blk_of_rb (rb_of b) = b.
Proof. exact block_of_val_spec. Qed.
Print Assumptions C01_block_reads_back.

(* the decoded view of an exporter is an append-only log of the hint-filtered submitted records, over every history *)
Theorem C01_view_is_log : forall ops x, den_inv x ->
  view_qrs (xrun x ops) = view_qrs x ++ map Some (log_qr x ops) /\
  view_mms (xrun x ops) = view_mms x ++ map Some (log_mm x ops) /\ den_inv (xrun x ops).
Proof. exact xrun_view. Qed.
Print Assumptions C01_view_is_log.

(* THE COMPOSITION.  For every preamble within the ranges of the format and every admissible history (while an output holds a block only parameter sets of
   its header are activated; record times normalised and below 2^63 ticks, tick rate >= 1) whose values stay within
   the ranges of the format: there are the closed outputs (oldest first) and the open one, each with the preamble in force
   when it got its header and its blocks, such that
     - the bytes of every output are header ++ blocks ++ break (or nothing), and the library's file reader run on those bytes
       returns that preamble and exactly those blocks, consuming the whole file ([reads_back]);
     - the records the generic readers return for those blocks, output after output, followed by those of the block still
       buffered, are the submitted records with their hint-disabled members removed, in submission order, each once. *)
Theorem C01_end_to_end : forall pre ops, typed_pre pre -> adm0 pre ops -> typed_x (xrun (x_new pre) ops) ->
  let x := xrun (x_new pre) ops in
  exists (last : val) cur closed,
    rev (x_closed x) = map (fun pb => file_bytes (fst pb) (snd pb)) (rev closed) /\
    destroy x = file_bytes last cur /\
    Forall reads_back (rev closed ++ [(last, cur)]) /\
    flat_map file_view_qr (rev closed ++ [(last, cur)]) ++ blk_view_qr (x_blk x) = map Some (log_qr (x_new pre) ops) /\
    flat_map file_view_mm (rev closed ++ [(last, cur)]) ++ blk_view_mm (x_blk x) = map Some (log_mm (x_new pre) ops) /\
    (forall k, fold_right (fun pb a => file_aec_total k pb + a) 0 (rev closed ++ [(last, cur)]) + dec_total k (blk_view_aec (x_blk x))
               = log_aec (x_new pre) ops k).
Proof. exact end_to_end. Qed.
Print Assumptions C01_end_to_end.

(* [log_aec] in one pass (the form the harness evaluates): the number of occurrences of k among the decoded keys of the accepted events *)
Theorem C01_log_aec_one_pass : forall ops x k, log_aec x ops k = count_key k (log_aec_keys x ops).
Proof. exact log_aec_count. Qed.
Print Assumptions C01_log_aec_one_pass.

(* the hypotheses are decidable, and satisfiable by a history with all three record kinds, a rotation and an explicit write *)
Theorem C01_hypotheses_decidable : forall pre ops,
  has_tyb FilePreamble pre = true -> admb (x_new pre) 0 ops = true -> typed_xb (xrun (x_new pre) ops) = true ->
  typed_pre pre /\ adm0 pre ops /\ typed_x (xrun (x_new pre) ops).
Proof.
  intros pre ops H1 H2 H3. split; [apply (proj1 has_tyb_sound); exact H1|]. split; [apply admb_sound; exact H2|apply typed_xb_sound; exact H3].
Qed.
Print Assumptions C01_hypotheses_decidable.

Example C01_end_to_end_nonvacuous :
  let pre := VR [Some (VN 1); Some (VN 0); None; Some (VL [VR [Some (VR [Some (VN 1000); Some (VN 10);
                 Some (VR [Some (VN 262143); Some (VN 131071); Some (VN 3); Some (VN 3)]); Some (VL []); Some (VL []);
                 None; None; None; None; None; None; None]); None]])] in
  let gr := [Some (VL [VN 5; VN 1]); Some (VS [10; 0; 0; 1]); Some (VN 53)] in
  let gr2 := [Some (VL [VN 4; VN 999]); Some (VS [10; 0; 0; 2]); None; Some (VN 7)] in
  let ga := [Some (VN 1); None; None; Some (VS [10; 0; 0; 1])] in
  let gm := [Some (VL [VN 6; VN 0]); Some (VS [10; 0; 0; 3]); Some (VN 99)] in
  let ops := [XQr gr None; XAec ga None; XMm gm None; XQr gr2 None; XRot true; XQr gr None; XWb] in
  has_tyb FilePreamble pre = true /\ admb (x_new pre) 0 ops = true /\ typed_xb (xrun (x_new pre) ops) = true /\
  length (x_closed (xrun (x_new pre) ops)) = 1%nat /\ length (log_qr (x_new pre) ops) = 3%nat /\ length (log_mm (x_new pre) ops) = 1%nat /\
  (0 < length (destroy (xrun (x_new pre) ops)))%nat.
Proof. vm_compute. repeat split; lia. Qed.

Example C01_nonvacuous :
  let pre := VR [Some (VN 1); Some (VN 0); None; Some (VL [VR [Some (VR [Some (VN 1000); Some (VN 10);
                 Some (VR [Some (VN 262143); Some (VN 131071); Some (VN 3); Some (VN 3)]); Some (VL []); Some (VL []);
                 None; None; None; None; None; None; None]); None]])] in
  let gr := [Some (VL [VN 5; VN 1]); Some (VS [10; 0; 0; 1]); Some (VN 53)] in
  let x1 := fst (buffer_qr gr None (x_new pre)) in
  let out := destroy (fst (write_block x1)) in
  match run (read_file 400) out with
  | (inl (_, [b]), []) => gen_qr (r_tables b) (hd (VN 0) (r_qrs b)) =
        Some (VR ([Some (VL [VN 5; VN 1]); Some (VS [10; 0; 0; 1]); Some (VN 53)] ++ repeat None 36))
  | _ => False
  end.
Proof. vm_compute. reflexivity. Qed.

(* the one place where what comes back is not literally what was buffered: query_ancount travels through a 32-bit member of the signature and
   comes back through the uint16_t of GenericQueryResponse (Block.narrow16 in exp_qr). On every count an application can hand the exporter -
   a uint16_t - that is the identity *)
Theorem C01_ancount_narrowing_is_identity : forall n, (n < 65536)%N -> narrow16 (Some (VN n)) = Some (VN n).
Proof. intros n H. unfold narrow16. rewrite N.mod_small by exact H. reflexivity. Qed.
Print Assumptions C01_ancount_narrowing_is_identity.
