(* Properties_C01.v — C01: export -> file -> read returns exactly the records that were buffered.
   The end-to-end statement is decomposed along the layers of the model; the pieces proved here are full-strength each,
   their composition into one theorem over whole histories is NOT proved (see C01_..._partial names and DESIGN.md):
   the correspondence run and the independent reader check the composition on every run.  Only statements live here. *)
Require Import Base Cbor EncoderModel DecoderModel DecoderProofs Schema SchemaProofs Block BlockProofs Exporter ExporterProofs Properties_C09.
Local Open Scope N_scope.

(* layer 1 (bytes <-> tree): whatever block value the exporter serialises, the reader's generic structure reader gets the
   same value back — every member, integers over their whole declared range, byte strings bit for bit, lists in order,
   absent members absent — and leaves the following block untouched *)
Theorem C01_block_bytes_roundtrip : forall v g rest, has_ty Schema.Block v ->
  (length (fst (write_struct Schema.Block v)) <= g)%nat ->
  run (read_val g Schema.Block) (fst (write_struct Schema.Block v) ++ rest) = (inl v, rest).
Proof. intros v g rest Ht Hg. apply C09_roundtrip_any; auto. unfold all_descriptors. cbn. tauto. Qed.
Print Assumptions C01_block_bytes_roundtrip.

(* layer 2 (records <-> items): every record handed to the exporter is kept exactly once, in order (C12_conservation) *)
Theorem C01_records_kept : forall x o,
  all_qrs (fst (xstep x o)) = all_qrs x ++ match o with XQr gr _ => stored_qr x gr | _ => [] end /\
  all_mms (fst (xstep x o)) = all_mms x ++ match o with XMm gm _ => stored_mm x gm | _ => [] end.
Proof. intros x o. split; [apply xstep_conserves_qr|apply xstep_conserves_mm]. Qed.
Print Assumptions C01_records_kept.

(* layer 3 (values <-> table indices): the index stored for a value denotes that value when the block is read, whatever
   is added to the block afterwards *)
Theorem C01_index_denotes : forall tb i v tb', let '(tb1, ix) := add_to tb i v in
  tb_ext tb1 tb' -> nth_error (tget tb' i) (N.to_nat ix) = Some v.
Proof.
  intros tb i v tb'. pose proof (add_to_get tb i v) as H. destruct (add_to tb i v) as [tb1 ix]. cbn [fst snd] in H.
  intros He. eapply ext_keeps; eauto.
Qed.
Print Assumptions C01_index_denotes.

(* statistics: a block carries the statistics most recently supplied while it was being filled *)
Theorem C01_statistics : forall old new, with_stats old new = match new with Some s => Some s | None => old end.
Proof. intros old [s|]; reflexivity. Qed.
Print Assumptions C01_statistics.

(* address events: one accepted call adds one to its key's total, nothing else does (C12_conservation, AEC part) *)
Theorem C01_aec_totals : forall x o k,
  aec_total (fst (xstep x o)) k = aec_total x k +
    match o with
    | XAec ga _ => if N.testbit (h_other (b_bp (x_blk x))) 1 then (if val_eqb (aec_key_of x ga) k then 1 else 0) else 0
    | _ => 0
    end.
Proof. exact xstep_conserves_aec. Qed.
Print Assumptions C01_aec_totals.

Example C01_nonvacuous :
  let pre := VR [Some (VN 1); Some (VN 0); None; Some (VL [VR [Some (VR [Some (VN 1000); Some (VN 10);
                 Some (VR [Some (VN 262143); Some (VN 131071); Some (VN 3); Some (VN 3)]); Some (VL []); Some (VL []);
                 None; None; None; None; None; None; None]); None]])] in
  let gr := [Some (VL [VN 5; VN 1]); Some (VS [10; 0; 0; 1]); Some (VN 53)] in
  let x1 := fst (buffer_qr gr None (x_new pre)) in
  let out := destroy (fst (write_block x1)) in
  match run (read_file 400) out with
  | (inl (_, [b]), []) => gen_qr (r_tables b) (hd (VN 0) (r_qrs b)) =
        Some (VR ([Some (VL [VN 5; VN 1]); Some (VS [10; 0; 0; 1]); Some (VN 53)] ++ repeat None 36))
  | _ => False
  end.
Proof. vm_compute. reflexivity. Qed.
