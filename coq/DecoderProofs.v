(* DecoderProofs.v — lemmas about the decoder model: head decoding, the read operations on every
   well-formed encoding, skip_item on the whole grammar, and the physical-window refinement. *)
Require Import Base Cbor DecoderModel.
Local Open Scope N_scope.

(* ---------- arithmetic ---------- *)
Lemma read_be_spec k : forall v acc rest, v < 256 ^ N.of_nat k ->
  run (read_be k acc) (be k v ++ rest) = (inl (acc * 256 ^ N.of_nat k + v), rest).
Proof.
  induction k as [|k IH]; intros v acc rest Hv; cbn [read_be be app run].
  - cbn in Hv. f_equal. f_equal. cbn. lia.
  - rewrite Nat2N.inj_succ, N.pow_succ_r' in Hv.
    pose proof (pow256_pos k) as HP. set (P := 256 ^ N.of_nat k) in *.
    assert (Hq : v / P < 256) by (apply N.div_lt_upper_bound; lia).
    rewrite (N.mod_small (v / P) 256) by exact Hq.
    rewrite <- (be_mod k v). fold P.
    rewrite IH by (apply N.mod_lt; lia).
    f_equal. f_equal. rewrite Nat2N.inj_succ, N.pow_succ_r'. fold P.
    pose proof (N.div_mod v P). nia.
Qed.

Lemma head_byte_split m ai : In m majors -> ai < 32 ->
  major_of (mcode m + ai) = m /\ N.land (mcode m + ai) 31 = ai /\ (mcode m + ai =? 255) = ((mcode m =? 224) && (ai =? 31)).
Proof.
  intros Hm Ha.
  assert (H : forallb (fun m => forallb (fun x =>
              (mcode (major_of (mcode m + x)) =? mcode m) && (N.land (mcode m + x) 31 =? x)
              && Bool.eqb (mcode m + x =? 255) ((mcode m =? 224) && (x =? 31)))
              (map N.of_nat (seq 0 32))) majors = true) by (vm_compute; reflexivity).
  rewrite forallb_forall in H. specialize (H _ Hm). rewrite forallb_forall in H.
  specialize (H ai). rewrite !andb_true_iff, !N.eqb_eq, Bool.eqb_true_iff in H.
  destruct H as [[H1 H2] H3].
  { apply in_map_iff. exists (N.to_nat ai). split; [lia|]. apply in_seq. lia. }
  repeat split; auto.
  destruct (major_of (mcode m + ai)), m; cbn in H1; try reflexivity; discriminate.
Qed.

Lemma in_majors m : In m majors.
Proof. destruct m; cbn; tauto. Qed.

Lemma wai_lt w n : wfits w n -> wai w n < 28.
Proof. destruct w; cbn; lia. Qed.

Lemma run_read_type m ai rest : ai < 32 ->
  run read_type ((mcode m + ai) :: rest) = (inl (m, ai), rest).
Proof.
  intros Ha. cbn. destruct (head_byte_split m ai (in_majors m) Ha) as (-> & -> & _). reflexivity.
Qed.

Lemma run_peek_type m ai rest : ai < 32 -> (m = M7 -> ai <> 31) ->
  run peek_type ((mcode m + ai) :: rest) = (inl (Some m), (mcode m + ai) :: rest).
Proof.
  intros Ha Hn. cbn. destruct (head_byte_split m ai (in_majors m) Ha) as (-> & _ & ->).
  assert ((mcode m =? 224) && (ai =? 31) = false) as ->.
  { destruct m; cbn; try reflexivity. assert (ai <> 31) by auto. lia. }
  reflexivity.
Qed.

Lemma read_int_head w n rest : wfits w n ->
  run (read_int (wai w n)) (be (wbytes w) n ++ rest) = (inl n, rest).
Proof.
  intros Hf. destruct w; cbn [wai wbytes wfits] in *.
  - unfold read_int. assert (n <=? 23 = true) as -> by lia. reflexivity.
  - unfold read_int. cbn -[read_be be N.pow]. rewrite read_be_spec by exact Hf. f_equal.
  - unfold read_int. cbn -[read_be be N.pow]. rewrite read_be_spec by exact Hf. f_equal.
  - unfold read_int. cbn -[read_be be N.pow]. rewrite read_be_spec by exact Hf. f_equal.
  - unfold read_int. cbn -[read_be be N.pow]. rewrite read_be_spec by exact Hf. f_equal.
Qed.

(* reading the head of any item: type, additional info, argument *)
Lemma run_head {A} m w n (k : major * N -> prog A) rest : wfits w n ->
  run (ta <- read_type ;; k ta) (head m w n ++ rest) = run (k (m, wai w n)) (be (wbytes w) n ++ rest).
Proof.
  intros Hf. unfold head. rewrite run_bind. cbn [app].
  rewrite run_read_type by (pose proof (wai_lt w n Hf); lia). reflexivity.
Qed.

Lemma wai_le_27 w n : wfits w n -> (28 <=? wai w n) = false.
Proof. intros H. pose proof (wai_lt w n H). lia. Qed.
Lemma wai_not_bad w n : wfits w n -> bad_ai (wai w n) = false.
Proof. intros H. unfold bad_ai. rewrite wai_le_27 by auto. reflexivity. Qed.
Lemma wai_not_31 w n : wfits w n -> (wai w n =? 31) = false.
Proof. intros H. pose proof (wai_lt w n H). lia. Qed.

(* ---------- integers, booleans, break, container starts ---------- *)
Lemma read_unsigned_spec w n rest : wfits w n ->
  run read_unsigned (ser (IInt false w n) ++ rest) = (inl n, rest).
Proof.
  intros Hf. cbn [ser mint]. unfold read_unsigned. rewrite run_head by auto. cbn [fst snd].
  rewrite wai_le_27 by auto. apply read_int_head; auto.
Qed.

Lemma read_negative_spec w n rest : wfits w n ->
  run read_negative (ser (IInt true w n) ++ rest) = (inl (neg_of n), rest).
Proof.
  intros Hf. cbn [ser mint]. unfold read_negative. rewrite run_head by auto. cbn [fst snd].
  rewrite wai_le_27 by auto. rewrite run_bind, read_int_head by auto. reflexivity.
Qed.

Lemma wfits_lt64 w n : wfits w n -> n < two64.
Proof. unfold two64. destruct w; cbn; lia. Qed.

Lemma neg_of_small n : n < two63 -> neg_of n = (-1 - Z.of_N n)%Z.
Proof.
  intros H. unfold neg_of. assert (n <? two63 = true) as -> by lia. reflexivity.
Qed.
Lemma clamp_i64_small n : n < two63 -> clamp_i64 n = Z.of_N n.
Proof. intros H. unfold clamp_i64. assert (n <? two63 = true) as -> by lia. reflexivity. Qed.
Lemma to_i64_small n : n < two63 -> to_i64 n = Z.of_N n.
Proof. intros H. unfold to_i64. assert (n <? two63 = true) as -> by lia. reflexivity. Qed.

Lemma peek_head m w n rest : wfits w n ->
  run peek_type (head m w n ++ rest) = (inl (Some m), head m w n ++ rest).
Proof.
  intros Hf. unfold head. cbn [app]. apply run_peek_type.
  - pose proof (wai_lt w n Hf); lia.
  - intros _. pose proof (wai_lt w n Hf); lia.
Qed.

Lemma read_integer_spec neg w n rest : wfits w n ->
  run read_integer (ser (IInt neg w n) ++ rest) =
  (inl (if neg then neg_of n else clamp_i64 n), rest).
Proof.
  intros Hf. unfold read_integer. rewrite run_bind. cbn [ser]. rewrite peek_head by auto.
  destruct neg; cbn [mint].
  - apply (read_negative_spec w n rest Hf).
  - rewrite run_bind. pose proof (read_unsigned_spec w n rest Hf) as H. cbn [ser mint] in H. rewrite H. reflexivity.
Qed.

Lemma read_bool_spec (b : bool) rest :
  run read_bool (ser (ISeven W0 (if b then 21 else 20)) ++ rest) = (inl b, rest).
Proof. destruct b; reflexivity. Qed.

Lemma read_break_spec rest : run read_break (255 :: rest) = (inl tt, rest).
Proof. reflexivity. Qed.

Lemma major_eqb_refl m : major_eqb m m = true.
Proof. unfold major_eqb. apply N.eqb_refl. Qed.

Lemma read_xstart_def m w n rest : wfits w n ->
  run (read_xstart m) (head m w n ++ rest) = (inl (n, false), rest).
Proof.
  intros Hf. unfold read_xstart. rewrite run_head by auto. cbn [fst snd].
  rewrite major_eqb_refl, wai_not_bad, wai_not_31 by auto. cbn [negb].
  rewrite run_bind, read_int_head by auto. reflexivity.
Qed.

Lemma read_xstart_indef m rest : (m = MA \/ m = MM) ->
  run (read_xstart m) ((mcode m + 31) :: rest) = (inl (0, true), rest).
Proof. intros [-> | ->]; reflexivity. Qed.

(* ---------- strings ---------- *)
Lemma read_bytes_spec : forall bs g racc rest, (length bs <= g)%nat ->
  run (read_bytes g (N.of_nat (length bs)) racc) (bs ++ rest) = (inl (rev bs ++ racc), rest).
Proof.
  induction bs as [|b bs IH]; intros g racc rest Hg.
  - destruct g; reflexivity.
  - destruct g as [|g]; [cbn in Hg; lia|].
    cbn [length read_bytes]. rewrite Nat2N.inj_succ.
    assert (N.succ (N.of_nat (length bs)) =? 0 = false) as -> by lia.
    cbn [app run]. replace (N.succ (N.of_nat (length bs)) - 1) with (N.of_nat (length bs)) by lia.
    rewrite IH by (cbn in Hg; lia). cbn [rev]. rewrite <- app_assoc. reflexivity.
Qed.

Lemma read_string_def m bs g rest : (length bs <= g)%nat ->
  run (read_string m g (N.of_nat (length bs)) false) (bs ++ rest) = (inl bs, rest).
Proof.
  intros Hg. unfold read_string. cbn [run]. rewrite run_bind, read_bytes_spec by auto.
  cbn [run]. rewrite frev_rev, app_nil_r, rev_involutive. reflexivity.
Qed.

Definition chunks_len (cs : list (width * list N)) : nat :=
  fold_right (fun c a => S (length (snd c)) + a)%nat 0%nat cs.

Lemma read_chunks_spec m (Hm : m = MB \/ m = MT) : forall cs g fuel racc rest,
  Forall wf_chunk cs -> (chunks_len cs <= g)%nat -> (length cs < fuel)%nat ->
  run (read_chunks m g fuel racc) (flat_map (ser_chunk m) cs ++ 255 :: rest)
  = (inl (rev (chunks_val cs) ++ racc), rest).
Proof.
  induction cs as [|[w bs] cs IH]; intros g fuel racc rest Hw Hg Hf.
  - destruct fuel as [|fuel]; [cbn in Hf; lia|]. reflexivity.
  - destruct fuel as [|fuel]; [cbn in Hf; lia|].
    inversion Hw as [|? ? Hc Hcs]; subst. unfold wf_chunk in Hc. cbn [fst snd] in Hc.
    cbn [flat_map read_chunks]. unfold ser_chunk at 1. cbn [fst snd].
    rewrite <- !app_assoc. rewrite run_bind, peek_head by auto.
    rewrite run_head by auto. cbn [fst snd].
    rewrite major_eqb_refl, wai_not_31 by auto. cbn [negb].
    rewrite run_bind, read_int_head by auto. cbn [run].
    unfold chunks_len in Hg. cbn [fold_right snd] in Hg. fold (chunks_len cs) in Hg.
    rewrite run_bind, read_bytes_spec by lia.
    rewrite IH; auto; try lia. 2:{ cbn in Hf; lia. }
    unfold chunks_val. cbn [flat_map snd]. rewrite rev_app_distr, <- app_assoc. reflexivity.
Qed.

Lemma read_string_indef m cs g rest : (m = MB \/ m = MT) -> Forall wf_chunk cs ->
  (chunks_len cs < g)%nat ->
  run (read_string m g 0 true) (flat_map (ser_chunk m) cs ++ 255 :: rest) = (inl (chunks_val cs), rest).
Proof.
  intros Hm Hw Hg. unfold read_string. rewrite run_bind, (read_chunks_spec m Hm); auto; try lia.
  - cbn [run]. rewrite frev_rev, app_nil_r, rev_involutive. reflexivity.
  - assert (Hl : (length cs <= chunks_len cs)%nat); [|lia].
    clear. induction cs as [|c cs IH]; [cbn; lia|]. unfold chunks_len in *. cbn [length fold_right]. lia.
Qed.

Lemma mstr_cases t : mstr t = MB \/ mstr t = MT.
Proof. destruct t; auto. Qed.

Lemma read_xstring_def t w bs g rest : wfits w (N.of_nat (length bs)) -> (length bs <= g)%nat ->
  run (read_xstring (mstr t) g) (ser (IStr t w bs) ++ rest) = (inl bs, rest).
Proof.
  intros Hf Hg. cbn [ser]. unfold read_xstring. rewrite <- app_assoc, run_head by auto. cbn [fst snd].
  rewrite major_eqb_refl, wai_not_bad by auto. cbn [negb].
  rewrite run_bind, read_int_head, wai_not_31 by auto. apply read_string_def; auto.
Qed.

Lemma read_xstring_indef t cs g rest : Forall wf_chunk cs -> (chunks_len cs < g)%nat ->
  run (read_xstring (mstr t) g) (ser (IStrIndef t cs) ++ rest) = (inl (chunks_val cs), rest).
Proof.
  intros Hw Hg. cbn [ser app]. unfold read_xstring. rewrite run_bind.
  rewrite run_read_type by lia. cbn [fst snd].
  rewrite major_eqb_refl. cbn [negb bad_ai].
  replace (bad_ai 31) with false by reflexivity.
  replace (read_int 31) with (@Ret N 0) by reflexivity. cbn [bind].
  replace (31 =? 31) with true by reflexivity.
  rewrite <- app_assoc. apply read_string_indef; auto. apply mstr_cases.
Qed.

(* ---------- skip_item ---------- *)
Definition skips (sk : prog unit) (y : item) := forall rest, run sk (ser y ++ rest) = (inl tt, rest).

Lemma first_byte_not_break x : wf x -> exists b r, ser x = b :: r /\ b <> 255 /\
  run peek_type (b :: r) = (inl (Some (major_of b)), b :: r).
Proof.
  assert (Hh : forall m w n, wfits w n -> exists b r, head m w n = b :: r /\ b <> 255 /\ b < 256).
  { intros m w n Hf. eexists _, _. split; [reflexivity|]. pose proof (wai_lt w n Hf). destruct m; cbn [mcode]; lia. }
  assert (Hp : forall b r, b <> 255 -> run peek_type (b :: r) = (inl (Some (major_of b)), b :: r)).
  { intros b r Hb. cbn. assert (b =? 255 = false) as -> by lia. reflexivity. }
  destruct x as [neg w n|t w bs|t cs|m w xs|m xs|w t x|w n]; cbn [ser wf]; intros H.
  - destruct (Hh (mint neg) w n H) as (b & r & -> & Hb & _). eauto 6.
  - destruct (Hh (mstr t) w _ H) as (b & r & -> & Hb & _). cbn [app]. eauto 6.
  - eexists _, _. split; [reflexivity|]. assert (mcode (mstr t) + 31 <> 255) by (destruct t; cbn; lia). auto.
  - destruct H as [H _]. destruct (Hh (mcont m) w _ H) as (b & r & -> & Hb & _). cbn [app]. eauto 6.
  - eexists _, _. split; [reflexivity|]. assert (mcode (mcont m) + 31 <> 255) by (destruct m; cbn; lia). auto.
  - destruct H as [H _]. destruct (Hh MTag w _ H) as (b & r & -> & Hb & _). cbn [app]. eauto 6.
  - destruct (Hh M7 w n H) as (b & r & -> & Hb & _). eauto 6.
Qed.

Lemma loop_n_spec sk : forall ys g rest, Forall (skips sk) ys -> (length ys <= g)%nat ->
  run (loop_n sk g (N.of_nat (length ys))) (flat_map ser ys ++ rest) = (inl tt, rest).
Proof.
  induction ys as [|y ys IH]; intros g rest HF Hg.
  - destruct g; reflexivity.
  - destruct g as [|g]; [cbn in Hg; lia|]. cbn [length loop_n]. rewrite Nat2N.inj_succ.
    assert (N.succ (N.of_nat (length ys)) =? 0 = false) as -> by lia.
    inversion HF as [|? ? Hy HF']; subst.
    cbn [flat_map]. rewrite <- app_assoc, run_bind, Hy.
    replace (N.succ (N.of_nat (length ys)) - 1) with (N.of_nat (length ys)) by lia.
    apply IH; auto. cbn in Hg. lia.
Qed.

Lemma loop_indef_spec sk : forall ys g rest, Forall (skips sk) ys -> Forall wf ys -> (length ys < g)%nat ->
  run (loop_indef sk g) (flat_map ser ys ++ 255 :: rest) = (inl tt, rest).
Proof.
  induction ys as [|y ys IH]; intros g rest HF Hw Hg.
  - destruct g as [|g]; [cbn in Hg; lia|]. reflexivity.
  - destruct g as [|g]; [cbn in Hg; lia|].
    inversion HF as [|? ? Hy HF']; subst. inversion Hw as [|? ? Hwy Hwys]; subst.
    cbn [flat_map loop_indef]. rewrite <- app_assoc.
    destruct (first_byte_not_break y Hwy) as (b & r & Hb & Hne & Hpk).
    rewrite run_bind. specialize (Hy (flat_map ser ys ++ 255 :: rest)).
    rewrite Hb in *. cbn [app] in *.
    assert (Hpk' : run peek_type (b :: r ++ flat_map ser ys ++ 255 :: rest)
                   = (inl (Some (major_of b)), b :: r ++ flat_map ser ys ++ 255 :: rest)).
    { cbn. assert (b =? 255 = false) as -> by lia. reflexivity. }
    rewrite Hpk'. rewrite run_bind, Hy. apply IH; auto. cbn in Hg. lia.
Qed.

Lemma wfl_Forall xs : wfl xs -> Forall wf xs.
Proof. induction xs; cbn; intros H; constructor; tauto. Qed.
Lemma len_le_szl xs : (length xs <= szl xs)%nat.
Proof. induction xs as [|a xs IH]; cbn; [lia|]. fold (szl xs). destruct a; cbn; lia. Qed.

Lemma even_half n : Nat.even n = true -> 2 * (N.of_nat n / 2) = N.of_nat n.
Proof.
  intros H. apply Nat.even_spec in H. destruct H as [k ->].
  rewrite Nat2N.inj_mul. change (N.of_nat 2) with 2. set (K := N.of_nat k). lia.
Qed.

(* bytes needed as loop fuel: every item has at least one byte *)
Fixpoint bsize (x : item) : nat :=
  match x with
  | IStr _ _ bs => S (length bs)
  | IStrIndef _ cs => S (S (chunks_len cs))
  | ICont _ _ xs => S (fold_right (fun y a => bsize y + a) 0 xs)
  | IContIndef _ xs => S (S (fold_right (fun y a => bsize y + a) 0 xs))
  | ITag _ _ x => S (bsize x)
  | _ => 1
  end%nat.
Definition bszl (xs : list item) : nat := fold_right (fun y a => bsize y + a)%nat 0%nat xs.
Lemma len_le_bszl xs : (length xs <= bszl xs)%nat.
Proof. induction xs as [|a xs IH]; cbn; [lia|]. fold (bszl xs). destruct a; cbn; lia. Qed.

Lemma Forall_skips_weaken (P : item -> Prop) xs g f :
  Forall (fun x => wf x -> forall g f, (bsize x <= g)%nat -> (isize x <= f)%nat -> skips (skip g f) x) xs ->
  Forall wf xs -> (bszl xs <= g)%nat -> (szl xs <= f)%nat -> Forall (skips (skip g f)) xs.
Proof.
  induction xs as [|x xs IH]; intros HF Hw Hg Hf; constructor.
  - inversion HF; inversion Hw; subst. cbn in Hg, Hf. fold (bszl xs) in Hg. fold (szl xs) in Hf.
    match goal with H : wf x -> _ |- _ => apply H end; auto; lia.
  - inversion HF; inversion Hw; subst. cbn in Hg, Hf. fold (bszl xs) in Hg. fold (szl xs) in Hf.
    apply IH; auto; lia.
Qed.

Lemma skip_spec : forall x, wf x -> forall g f, (bsize x <= g)%nat -> (isize x <= f)%nat ->
  skips (skip g f) x.
Proof.
  induction x as [neg w n|t w bs|t cs|m w xs IH|m xs IH|w t x IH|w n] using item_ind';
    intros Hw g f Hg Hf rest; (destruct f as [|f]; [cbn in Hf; lia|]).
  - cbn [wf] in Hw. cbn [ser skip]. rewrite run_head by auto. cbn [fst snd].
    destruct neg; cbn [mint]; rewrite wai_le_27 by auto;
      rewrite run_bind, read_int_head by auto; reflexivity.
  - cbn [wf] in Hw. cbn [ser skip]. rewrite <- app_assoc, run_head by auto. cbn [fst snd].
    cbn [bsize] in Hg.
    destruct t; cbn [mstr]; rewrite wai_not_bad by auto;
      rewrite run_bind, read_int_head by auto; rewrite wai_not_31 by auto;
      rewrite run_bind, read_string_def by lia; reflexivity.
  - cbn [wf] in Hw. cbn [ser skip app]. rewrite run_bind, run_read_type by lia. cbn [fst snd].
    cbn [bsize] in Hg.
    destruct t; cbn [mstr]; replace (bad_ai 31) with false by reflexivity;
      replace (read_int 31) with (@Ret N 0) by reflexivity; cbn [bind];
      replace (31 =? 31) with true by reflexivity;
      rewrite <- app_assoc; cbn [app]; rewrite run_bind, read_string_indef by (auto; lia); reflexivity.
  - cbn [wf] in Hw. destruct Hw as (Hc & Hev & Hall). apply wfl_Forall in Hall.
    cbn [ser skip]. rewrite <- app_assoc, run_head by auto. cbn [fst snd].
    cbn [bsize isize] in Hg, Hf. fold (bszl xs) in Hg. fold (szl xs) in Hf.
    assert (HS : Forall (skips (skip g f)) xs).
    { apply (Forall_skips_weaken (fun _ => True)); auto; lia. }
    pose proof (len_le_bszl xs).
    destruct m; cbn [mcont]; rewrite wai_not_bad, wai_not_31 by auto;
      rewrite run_bind, read_int_head by auto; unfold cnt.
    + rewrite even_half by auto. apply loop_n_spec; auto. lia.
    + apply loop_n_spec; auto. lia.
  - cbn [wf] in Hw. destruct Hw as (Hev & Hall). apply wfl_Forall in Hall.
    cbn [ser skip app]. rewrite run_bind, run_read_type by lia. cbn [fst snd].
    cbn [bsize isize] in Hg, Hf. fold (bszl xs) in Hg. fold (szl xs) in Hf.
    assert (HS : Forall (skips (skip g f)) xs).
    { apply (Forall_skips_weaken (fun _ => True)); auto; lia. }
    pose proof (len_le_bszl xs).
    destruct m; cbn [mcont]; replace (bad_ai 31) with false by reflexivity;
      replace (31 =? 31) with true by reflexivity;
      rewrite <- app_assoc; cbn [app]; apply loop_indef_spec; auto; lia.
  - cbn [wf] in Hw. destruct Hw as (Ht & Hx).
    cbn [ser skip]. rewrite <- app_assoc, run_head by auto. cbn [fst snd].
    rewrite wai_le_27 by auto. rewrite run_bind, read_int_head by auto.
    cbn [bsize isize] in Hg, Hf. apply IH; auto; lia.
  - cbn [wf] in Hw. cbn [ser skip]. rewrite run_head by auto. cbn [fst snd].
    rewrite wai_not_bad by auto. rewrite run_bind, read_int_head by auto. reflexivity.
Qed.

(* fuel that always suffices: the number of bytes of the encoding *)
Lemma isize_le_bsize x : (isize x <= bsize x)%nat.
Proof.
  induction x using item_ind'; cbn; try lia.
  - apply le_n_S. induction H as [|y ys Hy _ IHl]; cbn; lia.
  - apply le_n_S. apply le_S. induction H as [|y ys Hy _ IHl]; cbn; lia.
Qed.

Lemma chunks_len_le m cs : (chunks_len cs <= length (flat_map (ser_chunk m) cs))%nat.
Proof.
  induction cs as [|[w bs] cs IH]; [cbn; lia|]. unfold chunks_len in *. cbn [flat_map fold_right snd].
  rewrite app_length. unfold ser_chunk at 1. cbn [fst snd]. rewrite app_length. unfold head. cbn [length]. lia.
Qed.

Lemma bszl_le_ser xs : Forall (fun x => (bsize x <= length (ser x))%nat) xs ->
  (fold_right (fun y a => bsize y + a) 0 xs <= length (flat_map ser xs))%nat.
Proof. induction 1 as [|y ys Hy _ IHl]; cbn [fold_right flat_map length]; [lia|]. rewrite app_length. lia. Qed.

Lemma bsize_le_ser x : (bsize x <= length (ser x))%nat.
Proof.
  induction x using item_ind'; cbn [bsize ser]; unfold head.
  - cbn [length]. lia.
  - cbn [length app]. rewrite app_length. lia.
  - pose proof (chunks_len_le (mstr t) cs). cbn [length]. rewrite app_length. cbn [length]. lia.
  - apply bszl_le_ser in H. cbn [length app]. rewrite app_length. lia.
  - apply bszl_le_ser in H. cbn [length]. rewrite app_length. cbn [length]. lia.
  - cbn [length app]. rewrite app_length. lia.
  - cbn [length]. lia.
Qed.

Lemma skip_item_spec x g rest : wf x -> (length (ser x) <= g)%nat ->
  run (skip_item g) (ser x ++ rest) = (inl tt, rest).
Proof.
  intros Hw Hg. unfold skip_item. apply skip_spec; auto.
  - pose proof (bsize_le_ser x). lia.
  - pose proof (bsize_le_ser x). pose proof (isize_le_bsize x). lia.
Qed.

(* ---------- the physical window refines the logical byte list ---------- *)
Section PhysProofs.
  Variable B : N.
  Hypothesis HB : 0 < B.

  Lemma firstn_short_skipn {T} n (l : list T) : (length (firstn n l) < n)%nat -> skipn n l = [].
  Proof.
    revert l; induction n as [|n IH]; intros l H; [cbn in H; lia|].
    destruct l as [|a l]; [reflexivity|]. cbn in *. apply IH. lia.
  Qed.

  Lemma ensure_spec s : phys_inv B s ->
    match ensure B s with
    | None => logical s = []
    | Some s' => logical s' = logical s /\ phys_inv B s' /\ win s' <> []
    end.
  Proof.
    intros [Hi Hl]. unfold ensure, logical. destruct (win s) as [|b w] eqn:Hw.
    - unfold refill. destruct (eof s) eqn:He.
      + rewrite Hi by auto. reflexivity.
      + destruct (firstn (N.to_nat B) (rest s)) as [|c cs] eqn:Hf.
        * destruct (rest s) as [|r rs]; [reflexivity|].
          assert (N.to_nat B = S (pred (N.to_nat B))) as Hn by lia. rewrite Hn in Hf. cbn in Hf. discriminate.
        * cbn [win rest eof]. split; [|split].
          -- rewrite <- Hf. cbn [app]. apply firstn_skipn.
          -- split; cbn [win rest eof].
             ++ intros Hlt. apply firstn_short_skipn. rewrite Hf. lia.
             ++ rewrite <- Hf. rewrite firstn_length. lia.
          -- discriminate.
    - rewrite Hw. split; [reflexivity|]. split; [|discriminate]. split; [exact Hi|]. rewrite Hw. exact Hl.
  Qed.

  Theorem phys_refines {A} (p : prog A) : forall s, phys_inv B s ->
    let '(res, s') := run_phys B p s in
    run p (logical s) = (res, logical s') /\ phys_inv B s'.
  Proof.
    induction p as [a|e|k IH|k IH|n k IH]; intros s Hi; cbn [run_phys run].
    - auto.
    - auto.
    - pose proof (ensure_spec s Hi) as He. destruct (ensure B s) as [s1|].
      + destruct He as (Hl & Hi1 & Hne). destruct (win s1) as [|b w] eqn:Hw; [congruence|].
        assert (Hi2 : phys_inv B (mkPhys w (rest s1) (eof s1))).
        { destruct Hi1 as [H1 H2]. split; cbn [win rest eof]; auto. rewrite Hw in H2. cbn [length] in H2. lia. }
        specialize (IH b _ Hi2). destruct (run_phys B (k b) _) as [res s'].
        rewrite <- Hl. unfold logical at 1. rewrite Hw. cbn [app]. exact IH.
      + rewrite He. unfold logical in He. apply app_eq_nil in He. destruct He as [_ Hr].
        unfold logical, ended. cbn [win rest eof app]. rewrite Hr.
        split; [reflexivity|]. split; cbn [win rest eof length]; auto. lia.
    - pose proof (ensure_spec s Hi) as He. destruct (ensure B s) as [s1|].
      + destruct He as (Hl & Hi1 & Hne). destruct (win s1) as [|b w] eqn:Hw; [congruence|].
        specialize (IH b _ Hi1). destruct (run_phys B (k b) s1) as [res s'].
        rewrite <- Hl. unfold logical in *. rewrite Hw in *. cbn [app] in *. exact IH.
      + rewrite He. unfold logical in He. apply app_eq_nil in He. destruct He as [_ Hr].
        unfold logical, ended. cbn [win rest eof app]. rewrite Hr.
        split; [reflexivity|]. split; cbn [win rest eof length]; auto. lia.
    - apply IH; auto.
  Qed.

  Lemma phys_init_inv input : phys_inv B (phys_init input).
  Proof. split; cbn; [discriminate|lia]. Qed.
End PhysProofs.

(* ---------- allocation requests are bounded by the window size, whatever the input ---------- *)
Inductive rbounded {A} : prog A -> Prop :=
| rb_ret a : rbounded (Ret a)
| rb_throw e : rbounded (Throw e)
| rb_next k : (forall b, rbounded (k b)) -> rbounded (Next k)
| rb_peek k : (forall b, rbounded (k b)) -> rbounded (Peek k)
| rb_reserve n k : n <= DEC_BUFFER_SIZE -> rbounded k -> rbounded (Reserve n k).

Lemma rbounded_max {A} (p : prog A) : rbounded p -> forall inp, max_reserve p inp <= DEC_BUFFER_SIZE.
Proof.
  induction 1 as [a|e|k _ IH|k _ IH|n k Hn _ IH]; intros inp; cbn [max_reserve]; try (unfold DEC_BUFFER_SIZE; lia).
  - destruct inp; [unfold DEC_BUFFER_SIZE; lia|apply IH].
  - destruct inp; [unfold DEC_BUFFER_SIZE; lia|apply IH].
  - specialize (IH inp). lia.
Qed.
Lemma rbounded_bind {A B} (p : prog A) (f : A -> prog B) : rbounded p -> (forall a, rbounded (f a)) -> rbounded (bind p f).
Proof. induction 1; intros Hf; cbn [bind]; try constructor; auto. Qed.

Lemma rb_read_be k : forall acc, rbounded (read_be k acc).
Proof. induction k; intros acc; cbn; constructor; auto. Qed.
Lemma rb_read_int ai : rbounded (read_int ai).
Proof. unfold read_int. repeat match goal with |- context [if ?c then _ else _] => destruct c end; first [apply rb_read_be|constructor]. Qed.
Lemma rb_read_type : rbounded read_type.
Proof. constructor. intros b. constructor. Qed.
Lemma rb_peek_type : rbounded peek_type.
Proof. constructor. intros b. constructor. Qed.
Lemma rb_read_break : rbounded read_break.
Proof. unfold read_break. apply rbounded_bind; [apply rb_read_type|]. intros [m ai]. cbn. destruct m; try constructor. destruct (ai =? 31); constructor. Qed.
Lemma rb_read_bytes g : forall n racc, rbounded (read_bytes g n racc).
Proof. induction g; intros n racc; cbn [read_bytes]; destruct (n =? 0); try constructor; auto. Qed.
Lemma reserve_req_le n : reserve_req n <= DEC_BUFFER_SIZE.
Proof. unfold reserve_req. lia. Qed.
Lemma rb_read_chunks m g : forall fuel racc, rbounded (read_chunks m g fuel racc).
Proof.
  induction fuel as [|fuel IH]; intros racc; cbn [read_chunks]; [constructor|].
  apply rbounded_bind; [apply rb_peek_type|]. intros [mm|].
  - apply rbounded_bind; [apply rb_read_type|]. intros [m' ai]. cbn [fst snd].
    destruct (negb (major_eqb m' m)); [constructor|]. destruct (ai =? 31); [constructor|].
    apply rbounded_bind; [apply rb_read_int|]. intros len. constructor; [apply reserve_req_le|].
    apply rbounded_bind; [apply rb_read_bytes|]. intros racc'. apply IH.
  - apply rbounded_bind; [apply rb_read_break|]. intros _. constructor.
Qed.
Lemma rb_read_string m g n indef : rbounded (read_string m g n indef).
Proof.
  unfold read_string. destruct indef.
  - apply rbounded_bind; [apply rb_read_chunks|]. intros r. constructor.
  - constructor; [apply reserve_req_le|]. apply rbounded_bind; [apply rb_read_bytes|]. intros r. constructor.
Qed.
Lemma rb_read_xstring m g : rbounded (read_xstring m g).
Proof.
  unfold read_xstring. apply rbounded_bind; [apply rb_read_type|]. intros [m' ai]. cbn [fst snd].
  destruct (negb (major_eqb m' m)); [constructor|]. destruct (bad_ai ai); [constructor|].
  apply rbounded_bind; [apply rb_read_int|]. intros len. apply rb_read_string.
Qed.
Lemma rb_loop_n sk : rbounded sk -> forall g n, rbounded (loop_n sk g n).
Proof. intros Hs. induction g; intros n; cbn [loop_n]; destruct (n =? 0); try constructor. apply rbounded_bind; auto. Qed.
Lemma rb_loop_indef sk : rbounded sk -> forall g, rbounded (loop_indef sk g).
Proof.
  intros Hs. induction g; cbn [loop_indef]; [constructor|]. apply rbounded_bind; [apply rb_peek_type|].
  intros [m|]; [apply rbounded_bind; auto|]. constructor. intros b. constructor.
Qed.
Lemma rb_skip g : forall f, rbounded (skip g f).
Proof.
  induction f as [|f IH]; cbn [skip]; [constructor|].
  apply rbounded_bind; [apply rb_read_type|]. intros [m ai]. cbn [fst snd].
  destruct m.
  - destruct (28 <=? ai); [constructor|]. apply rbounded_bind; [apply rb_read_int|]. intros _. constructor.
  - destruct (28 <=? ai); [constructor|]. apply rbounded_bind; [apply rb_read_int|]. intros _. constructor.
  - destruct (bad_ai ai); [constructor|]. apply rbounded_bind; [apply rb_read_int|]. intros n.
    apply rbounded_bind; [apply rb_read_string|]. intros _. constructor.
  - destruct (bad_ai ai); [constructor|]. apply rbounded_bind; [apply rb_read_int|]. intros n.
    apply rbounded_bind; [apply rb_read_string|]. intros _. constructor.
  - destruct (bad_ai ai); [constructor|]. destruct (ai =? 31); [apply rb_loop_indef; exact IH|].
    apply rbounded_bind; [apply rb_read_int|]. intros n. apply rb_loop_n. exact IH.
  - destruct (bad_ai ai); [constructor|]. destruct (ai =? 31); [apply rb_loop_indef; exact IH|].
    apply rbounded_bind; [apply rb_read_int|]. intros n. apply rb_loop_n. exact IH.
  - destruct (28 <=? ai); [constructor|]. apply rbounded_bind; [apply rb_read_int|]. intros _. exact IH.
  - destruct (bad_ai ai); [constructor|]. apply rbounded_bind; [apply rb_read_int|]. intros _. constructor.
Qed.
