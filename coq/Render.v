(* Render.v — model of the label walk of get_readable_dname (src/interface.cpp), with the distinguished outcome DOOB for an
   access outside [0, size].  Reading dname[size()] is defined for std::string (it yields '\0'); anything beyond is not. *)
Require Import Base.
Local Open Scope N_scope.

Inductive dres := DUnchanged | DDone (labels : N) (d : list N) | DOOB | DFuel.

Fixpoint set_at (i : nat) (x : N) (l : list N) : list N :=
  match i, l with
  | O, _ :: l' => x :: l'
  | S i', a :: l' => a :: set_at i' x l'
  | _, [] => []
  end.

(* while (label_len != 0) { size += label_len; if (size > dname.size() || pos >= dname.size()) return wire_dname;
     labels++; label_len = dname[pos]; if (label_len != 0) dname[pos] = '.'; pos += label_len + 1; } *)
Fixpoint dn_loop (fuel : nat) (d : list N) (size pos label_len labels : N) : dres :=
  if label_len =? 0 then DDone labels d else
  match fuel with
  | O => DFuel
  | S f =>
    let size' := size + label_len in
    if (N.of_nat (length d) <? size') || (N.of_nat (length d) <=? pos) then DUnchanged else
    match nth_error d (N.to_nat pos) with
    | None => DOOB
    | Some l => dn_loop f (if l =? 0 then d else set_at (N.to_nat pos) 46 d) size' (pos + l + 1) l ((labels + 1) mod 256)
    end
  end.
Definition readable_dname (d : list N) : dres :=
  match d with
  | [] => DUnchanged
  | l0 :: _ => dn_loop (S (length d)) d 0 (l0 + 1) l0 0
  end.

Lemma set_at_length i x l : length (set_at i x l) = length l.
Proof. revert i; induction l as [|a l IH]; intros [|i]; cbn; auto. Qed.

(* for every byte string: no access outside the string, and the loop ends within |d| iterations *)
Lemma dn_loop_safe : forall fuel d size pos ll labels, (length d + 1 <= fuel + N.to_nat size)%nat -> size <= N.of_nat (length d) ->
  dn_loop fuel d size pos ll labels <> DOOB /\ dn_loop fuel d size pos ll labels <> DFuel.
Proof.
  induction fuel as [|f IH]; intros d size pos ll labels Hf Hs; cbn [dn_loop].
  - destruct (ll =? 0); [split; discriminate|]. lia.
  - destruct (ll =? 0) eqn:El; [split; discriminate|].
    destruct ((N.of_nat (length d) <? size + ll) || (N.of_nat (length d) <=? pos)) eqn:Eg; [split; discriminate|].
    apply orb_false_iff in Eg. destruct Eg as [E1 E2].
    destruct (nth_error d (N.to_nat pos)) as [l|] eqn:En.
    + apply IH.
      * destruct (l =? 0); rewrite ?set_at_length; lia.
      * destruct (l =? 0); rewrite ?set_at_length; lia.
    + apply nth_error_None in En. lia.
Qed.
Theorem readable_dname_safe d : readable_dname d <> DOOB /\ readable_dname d <> DFuel.
Proof.
  unfold readable_dname. destruct d as [|l0 d]; [split; discriminate|]. apply dn_loop_safe; cbn [length]; lia.
Qed.
