(* WriterProofs.v — the writer stack: (C15) a final name only ever holds a pre-existing file or a complete output, at every
   prefix of the event trace; (C14) the compression wrappers hand the inner writer exactly one complete compressed stream per
   output, which decompresses to what the plain writer receives. *)
Require Import Base Writer.
Local Open Scope N_scope.

Lemma path_eqb_eq a b : path_eqb a b = true <-> a = b.
Proof.
  destruct a, b; cbn; try (split; intros H; discriminate); rewrite N.eqb_eq; split; intros H; try (subst; reflexivity); inversion H; reflexivity.
Qed.
Lemma path_eqb_refl a : path_eqb a a = true.
Proof. apply path_eqb_eq. reflexivity. Qed.
Lemma upd_same f p c : upd f p c p = c.
Proof. unfold upd. rewrite path_eqb_refl. reflexivity. Qed.
Lemma upd_other f p c q : q <> p -> upd f p c q = f q.
Proof. intros H. unfold upd. destruct (path_eqb q p) eqn:E; [apply path_eqb_eq in E; contradiction|reflexivity]. Qed.

Section Named.
  Variable f0 : fs.          (* the file system before the writer was created *)

  (* every file under a final name is one that was there before, or the complete data of an output closed so far *)
  Definition finals_ok (g : fs) (done : list (N * list N)) : Prop :=
    forall n c, g (Final n) = Some c -> f0 (Final n) = Some c \/ In (n, c) done.
  Definition good (g : fs) (cur : N) (acc : list N) (done : list (N * list N)) : Prop :=
    g (Part cur) = Some acc /\ finals_ok g done.

  Lemma finals_ok_more g d more : finals_ok g d -> finals_ok g (d ++ more).
  Proof. intros H n c Hc. destruct (H n c Hc); [left|right; apply in_or_app; left]; assumption. Qed.

  Lemma close_rename_ok g cur acc done : good g cur acc done ->
    finals_ok (upd (upd g (Final cur) (g (Part cur))) (Part cur) None) (done ++ [(cur, acc)]).
  Proof.
    intros [Hp Hf] m c Hc. rewrite upd_other in Hc by discriminate.
    destruct (N.eq_dec m cur) as [->|Hne].
    - rewrite upd_same, Hp in Hc. inversion Hc; subst. right. apply in_or_app. right. left. reflexivity.
    - rewrite upd_other in Hc by congruence. destruct (Hf m c Hc); [left|right; apply in_or_app; left]; assumption.
  Qed.

  Lemma prefix_inv destroyed : forall ops cur acc g done k, good g cur acc done ->
    finals_ok (fs_run g (firstn k (run_steps named_step named_destroy cur ops destroyed))) (done ++ outputs_of cur acc ops destroyed).
  Proof.
    induction ops as [|o ops IH]; intros cur acc g done k Hg.
    - cbn [run_steps outputs_of]. destruct destroyed.
      + pose proof (close_rename_ok g cur acc done Hg) as Hg1. destruct Hg as [Hp Hf]. unfold named_destroy.
        destruct k as [|[|k]]; cbn [firstn]; unfold fs_run; cbn [fold_left fs_apply].
        * apply finals_ok_more. exact Hf.
        * apply finals_ok_more. exact Hf.
        * rewrite firstn_nil. cbn [fold_left]. exact Hg1.
      + rewrite firstn_nil. cbn. rewrite app_nil_r. apply Hg.
    - destruct o as [bs|n]; cbn [run_steps named_step outputs_of].
      + (* write *)
        destruct Hg as [Hp Hf]. destruct k as [|k].
        * cbn [firstn fs_run fold_left]. specialize (IH cur (acc ++ bs) g done 0%nat). cbn [firstn fs_run fold_left] in IH.
          (* nothing has happened yet: the finals are those of g *)
          intros m c Hc. destruct (Hf m c Hc); [left|right; apply in_or_app; left]; assumption.
        * cbn [app firstn]. unfold fs_run. cbn [fold_left fs_apply]. rewrite Hp. fold (fs_run (upd g (Part cur) (Some (acc ++ bs)))).
          apply IH. split.
          -- apply upd_same.
          -- intros m c Hc. rewrite upd_other in Hc by discriminate. apply Hf; auto.
      + (* rotate: close, rename, open *)
        pose proof (close_rename_ok g cur acc done Hg) as Hg1. destruct Hg as [Hp Hf].
        set (g1 := upd (upd g (Final cur) (g (Part cur))) (Part cur) None) in *.
        destruct k as [|[|[|k]]]; cbn [firstn app]; unfold fs_run; cbn [fold_left fs_apply].
        * apply finals_ok_more. exact Hf.
        * apply finals_ok_more. exact Hf.
        * fold g1. intros m c Hc. destruct (Hg1 m c Hc) as [H|H]; [left; auto|right].
          apply in_app_or in H. apply in_or_app. destruct H as [H|[H|[]]]; [left; auto|right; left; exact H].
        * fold g1. fold (fs_run (upd g1 (Part n) (Some []))).
          replace (done ++ (cur, acc) :: outputs_of n [] ops destroyed) with ((done ++ [(cur, acc)]) ++ outputs_of n [] ops destroyed)
            by (rewrite <- app_assoc; reflexivity).
          apply IH. split.
          -- apply upd_same.
          -- intros m c Hc. rewrite upd_other in Hc by discriminate. apply Hg1. exact Hc.
  Qed.

  (* the whole trace, from the creation of the writer *)
  Theorem named_prefix_ok n0 ops destroyed k :
    forall n c, fs_run f0 (firstn k (named_trace n0 ops destroyed)) (Final n) = Some c ->
                f0 (Final n) = Some c \/ In (n, c) (outputs_of n0 [] ops destroyed).
  Proof.
    unfold named_trace. destruct k as [|k]; cbn [firstn].
    - cbn. intros n c H. left. exact H.
    - unfold fs_run. cbn [fold_left fs_apply]. fold (fs_run (upd f0 (Part n0) (Some []))).
      pose proof (prefix_inv destroyed ops n0 [] (upd f0 (Part n0) (Some [])) [] k) as H. cbn [app] in H. apply H.
      split; [apply upd_same|]. intros m c Hc. rewrite upd_other in Hc by discriminate. left. exact Hc.
  Qed.
End Named.

(* ---------- compression wrappers ---------- *)
Section CodecProofs.
  Variable cstate : Type.
  Variable cinit : cstate.
  Variable crun : cstate -> list N -> cstate * list N.
  Variable cfinish : cstate -> list N.
  Variable decompress : list N -> option (list N).
  (* recorded hypothesis about zlib / liblzma: a run of compress calls followed by finish yields one stream that
     decompresses to the concatenation of what was consumed *)
  Hypothesis codec_ok : forall chunks, decompress (cstream cstate crun cfinish cinit chunks) = Some (concat chunks).

  (* the chunks each output receives *)
  Fixpoint chunks_of (cur : N) (acc : list (list N)) (ops : list wop) (destroyed : bool) : list (N * list (list N)) :=
    match ops with
    | [] => if destroyed then [(cur, acc)] else []
    | WWrite bs :: r => chunks_of cur (acc ++ [bs]) r destroyed
    | WRotate n :: r => (cur, acc) :: chunks_of n [] r destroyed
    end.

  (* what the inner writer receives for each output = prefix already produced ++ the rest of one complete stream *)
  Lemma czip_outputs destroyed : forall ops s cur acc,
    outputs_of cur acc (czip cstate cinit crun cfinish s ops destroyed) destroyed =
    match chunks_of cur [] ops destroyed with
    | [] => []
    | (n, cs) :: r => (n, acc ++ cstream cstate crun cfinish s cs) :: map (fun nc => (fst nc, cstream cstate crun cfinish cinit (snd nc))) r
    end.
  Proof.
    assert (Hgen : forall ops s cur acc pre,
      outputs_of cur acc (czip cstate cinit crun cfinish s ops destroyed) destroyed =
      match chunks_of cur pre ops destroyed with
      | [] => []
      | (n, cs) :: r => (n, acc ++ cstream cstate crun cfinish s (skipn (length pre) cs)) :: map (fun nc => (fst nc, cstream cstate crun cfinish cinit (snd nc))) r
      end /\ (forall n cs r, chunks_of cur pre ops destroyed = (n, cs) :: r -> firstn (length pre) cs = pre)).
    { induction ops as [|o ops IH]; intros s cur acc pre.
      - cbn [czip chunks_of]. destruct destroyed; cbn [outputs_of]; [|split; [reflexivity|discriminate]].
        split; [rewrite skipn_all; reflexivity|]. intros n cs r H. inversion H; subst. apply firstn_all.
      - destruct o as [bs|n]; cbn [czip chunks_of].
        + destruct (crun s bs) as [s' out] eqn:E. cbn [outputs_of].
          destruct (IH s' cur (acc ++ out) (pre ++ [bs])) as [H1 H2]. rewrite H1.
          destruct (chunks_of cur (pre ++ [bs]) ops destroyed) as [|[m cs] r] eqn:Ec; [split; [reflexivity|discriminate]|].
          specialize (H2 m cs r eq_refl). rewrite app_length in *. cbn [length] in *.
          assert (Hcs : cs = pre ++ bs :: skipn (length pre + 1) cs).
          { rewrite <- (firstn_skipn (length pre + 1) cs) at 1. rewrite H2, <- app_assoc. reflexivity. }
          split.
          * f_equal. f_equal. rewrite <- app_assoc. f_equal.
            rewrite Hcs at 2. rewrite skipn_app, skipn_all, Nat.sub_diag. cbn [app skipn cstream]. rewrite E. reflexivity.
          * intros n0 cs0 r0 H. inversion H; subst. rewrite Hcs. rewrite firstn_app, firstn_all, Nat.sub_diag. cbn. apply app_nil_r.
        + cbn [outputs_of]. destruct (IH cinit n [] []) as [H1 _]. rewrite H1. split.
          * rewrite skipn_all. cbn [cstream]. f_equal.
            destruct (chunks_of n [] ops destroyed) as [|[m cs] r]; [reflexivity|]. cbn [map fst snd app skipn length]. reflexivity.
          * intros n0 cs0 r0 H. inversion H; subst. apply firstn_all. }
    intros ops s cur acc. destruct (Hgen ops s cur acc []) as [H _]. exact H.
  Qed.

  Lemma plain_outputs destroyed : forall ops cur acc,
    outputs_of cur acc ops destroyed =
    match chunks_of cur [] ops destroyed with
    | [] => []
    | (n, cs) :: r => (n, acc ++ concat cs) :: map (fun nc => (fst nc, concat (snd nc))) r
    end.
  Proof.
    assert (Hgen : forall ops cur acc pre,
      outputs_of cur acc ops destroyed =
      match chunks_of cur pre ops destroyed with
      | [] => []
      | (n, cs) :: r => (n, acc ++ concat (skipn (length pre) cs)) :: map (fun nc => (fst nc, concat (snd nc))) r
      end /\ (forall n cs r, chunks_of cur pre ops destroyed = (n, cs) :: r -> firstn (length pre) cs = pre)).
    { induction ops as [|o ops IH]; intros cur acc pre.
      - cbn [chunks_of outputs_of]. destruct destroyed; [|split; [reflexivity|discriminate]].
        split; [rewrite skipn_all; cbn; rewrite app_nil_r; reflexivity|]. intros n cs r H. inversion H; subst. apply firstn_all.
      - destruct o as [bs|n]; cbn [chunks_of outputs_of].
        + destruct (IH cur (acc ++ bs) (pre ++ [bs])) as [H1 H2]. rewrite H1.
          destruct (chunks_of cur (pre ++ [bs]) ops destroyed) as [|[m cs] r] eqn:Ec; [split; [reflexivity|discriminate]|].
          specialize (H2 m cs r eq_refl). rewrite app_length in *. cbn [length] in *.
          assert (Hcs : cs = pre ++ bs :: skipn (length pre + 1) cs).
          { rewrite <- (firstn_skipn (length pre + 1) cs) at 1. rewrite H2, <- app_assoc. reflexivity. }
          split.
          * f_equal. f_equal. rewrite <- app_assoc. f_equal.
            rewrite Hcs at 2. rewrite skipn_app, skipn_all, Nat.sub_diag. cbn [app skipn concat]. reflexivity.
          * intros n0 cs0 r0 H. inversion H; subst. rewrite Hcs. rewrite firstn_app, firstn_all, Nat.sub_diag. cbn. apply app_nil_r.
        + destruct (IH n [] []) as [H1 _]. rewrite H1. split.
          * rewrite skipn_all. cbn [concat]. rewrite app_nil_r. f_equal.
            destruct (chunks_of n [] ops destroyed) as [|[m cs] r]; [reflexivity|]. cbn [map fst snd app skipn length]. reflexivity.
          * intros n0 cs0 r0 H. inversion H; subst. apply firstn_all. }
    intros ops cur acc. destruct (Hgen ops cur acc []) as [H _]. exact H.
  Qed.

  (* compression is transparent: output by output, the inner writer of a compressing writer receives one complete stream
     that decompresses to exactly what the plain writer receives for the same calls *)
  Theorem czip_transparent destroyed ops cur :
    Forall2 (fun zo po => fst zo = fst po /\ decompress (snd zo) = Some (snd po))
            (outputs_of cur [] (czip cstate cinit crun cfinish cinit ops destroyed) destroyed)
            (outputs_of cur [] ops destroyed).
  Proof.
    rewrite czip_outputs, plain_outputs. destruct (chunks_of cur [] ops destroyed) as [|[n cs] r]; [constructor|].
    cbn [app]. constructor; [split; [reflexivity|apply codec_ok]|].
    induction r as [|[m c] r IH]; cbn [map]; constructor; auto. cbn [fst snd]. split; [reflexivity|apply codec_ok].
  Qed.
End CodecProofs.

(* ---------- output failures ---------- *)
(* descriptor outputs: a write that loses bytes throws — in the same call *)
Lemma fd_write_detects o bs : let '(o', oc) := fd_write o bs in
  (oc = Done -> stored o' = stored o ++ bs /\ intended o' = intended o ++ bs) /\
  (length (stored o) = length (intended o) -> lost o' = true -> oc = Threw).
Proof.
  unfold fd_write. destruct (N.of_nat (length bs) <=? room o) eqn:E; cbn [stored intended].
  - split; [auto|]. intros Hl Hlost. unfold lost in Hlost. cbn [stored intended] in Hlost. rewrite !app_length, Hl in Hlost.
    rewrite N.eqb_refl in Hlost. discriminate.
  - split; [discriminate|reflexivity].
Qed.

(* over every history of calls and every budget: an output closed with bytes lost had a call that threw while it was open;
   stated per output by pairing each closed output with the outcomes of the calls made while it was open *)
Fixpoint fd_segments (cur : fout) (calls : list wcall) (ocs : list outcome) : list (fout * list outcome) :=
  match calls with
  | [] => [(cur, ocs)]
  | CWrite bs :: r => let '(cur', oc) := fd_write cur bs in fd_segments cur' r (ocs ++ [oc])
  | CRotate b :: r => (cur, ocs) :: fd_segments (fout_new b) r []
  end.
Theorem fd_no_silent_loss : forall calls cur ocs,
  (lost cur = true -> In Threw ocs) -> (length (stored cur) <= length (intended cur))%nat ->
  Forall (fun seg => lost (fst seg) = true -> In Threw (snd seg)) (fd_segments cur calls ocs).
Proof.
  induction calls as [|c calls IH]; intros cur ocs Hinv Hle; cbn [fd_segments].
  - constructor; [exact Hinv|constructor].
  - destruct c as [bs|b].
    + unfold fd_write. destruct (N.of_nat (length bs) <=? room cur) eqn:E.
      * apply IH; cbn [stored intended]; [|rewrite !app_length; lia].
        intros Hl. apply in_or_app. left. apply Hinv. unfold lost in *. cbn [stored intended] in Hl.
        rewrite !app_length in Hl. destruct (N.of_nat (length (stored cur)) =? N.of_nat (length (intended cur))) eqn:E2; [|reflexivity].
        apply N.eqb_eq in E2. assert (length (stored cur) = length (intended cur)) by lia. rewrite H, N.eqb_refl in Hl. discriminate.
      * apply IH; cbn [stored intended].
        -- intros _. apply in_or_app. right. left. reflexivity.
        -- rewrite !app_length, firstn_length. lia.
    + constructor; [exact Hinv|]. apply IH; cbn; [discriminate|lia].
Qed.
