(* ExporterProofs.v — invariants of the exporter model over every API history. *)
Require Import Base Cbor EncoderModel EncoderProofs DecoderModel Schema SchemaProofs Timestamp Block BlockProofs Exporter.
Local Open Scope N_scope.

(* ---------- what every step does to the ghost list of written blocks and to the buffered block ---------- *)
Definition all_qrs (x : exporter) : list val := flat_map b_qrs (x_done x) ++ b_qrs (x_blk x).
Definition all_mms (x : exporter) : list val := flat_map b_mms (x_done x) ++ b_mms (x_blk x).
Fixpoint aec_count (l : list (val * N)) (k : val) : N :=
  match l with [] => 0 | (k', c) :: l' => (if val_eqb k' k then c else 0) + aec_count l' k end.
Definition aec_total (x : exporter) (k : val) : N :=
  fold_right (fun b a => aec_count (b_aecs b) k + a) 0 (x_done x) + aec_count (b_aecs (x_blk x)) k.

Definition max1 (b : blk) : N := N.max 1 (bp_max (b_bp b)).
Definition bounded (b : blk) : Prop :=
  N.of_nat (length (b_qrs b)) <= max1 b /\ N.of_nat (length (b_aecs b)) <= max1 b /\ N.of_nat (length (b_mms b)) <= max1 b.
(* the buffered block between calls: empty, or every array still below the maximum *)
Definition resting (b : blk) : Prop := item_count b = 0 \/ blk_full b = false.

Lemma item_count_0 b : item_count b = 0 -> b_qrs b = [] /\ b_aecs b = [] /\ b_mms b = [].
Proof.
  unfold item_count. intros H. destruct (b_qrs b), (b_aecs b), (b_mms b); cbn in H; try lia. auto.
Qed.

Lemma resting_bounded b : resting b -> bounded b.
Proof.
  unfold resting, bounded, blk_full, max1. intros [H|H].
  - apply item_count_0 in H. destruct H as (-> & -> & ->). cbn. lia.
  - apply orb_false_iff in H. destruct H as [H H3]. apply orb_false_iff in H. destruct H as [H1 H2]. lia.
Qed.

Lemma aec_bump_length l k : (length (aec_bump l k) <= S (length l))%nat.
Proof. induction l as [|[k' c] l IH]; cbn; [lia|]. destruct (val_eqb k' k); cbn; lia. Qed.
Lemma aec_bump_length_ge l k : (length l <= length (aec_bump l k))%nat /\ (1 <= length (aec_bump l k))%nat.
Proof. induction l as [|[k' c] l IH]; cbn; [lia|]. destruct (val_eqb k' k); cbn; lia. Qed.
Lemma aec_bump_count l k k' : aec_count (aec_bump l k) k' = aec_count l k' + (if val_eqb k k' then 1 else 0).
Proof.
  induction l as [|[k0 c] l IH]; cbn [aec_bump aec_count].
  - lia.
  - destruct (val_eqb k0 k) eqn:E; cbn [aec_count].
    + apply val_eqb_eq in E. subst k0. destruct (val_eqb k k'); lia.
    + rewrite IH. lia.
Qed.

(* one add call grows each array by at most one item and keeps the block parameters *)
Record grows (b b' : blk) : Prop := {
  g_bp : b_bp b' = b_bp b;
  g_q : (length (b_qrs b) <= length (b_qrs b') <= S (length (b_qrs b)))%nat;
  g_a : (length (b_aecs b) <= length (b_aecs b') <= S (length (b_aecs b)))%nat;
  g_m : (length (b_mms b) <= length (b_mms b') <= S (length (b_mms b)))%nat }.

Lemma add_qr_grows gr st b : grows b (fst (add_qr gr st b)).
Proof.
  unfold add_qr. destruct (build_qr (b_bp b) gr (b_tb b)) as [tb item]. cbn [fst].
  constructor; cbn; auto; try lia. destruct (filled item); rewrite ?app_length; cbn; lia.
Qed.
Lemma add_aec_grows ga st b : grows b (fst (add_aec ga st b)).
Proof.
  unfold add_aec. destruct (negb (N.testbit (h_other (b_bp b)) 1)); [constructor; cbn; auto; lia|].
  destruct (add_to (b_tb b) T_ip (oval (nth_o ga 3))) as [tb ix]. cbn [fst].
  constructor; cbn; auto; try lia.
  pose proof (aec_bump_length (b_aecs b) (VR [nth_o ga 0; nth_o ga 1; Some (VN ix); nth_o ga 2; Some (VN 0)])).
  pose proof (aec_bump_length_ge (b_aecs b) (VR [nth_o ga 0; nth_o ga 1; Some (VN ix); nth_o ga 2; Some (VN 0)])). lia.
Qed.
Lemma add_mm_grows gm st b : grows b (fst (add_mm gm st b)).
Proof.
  unfold add_mm. destruct (negb (N.testbit (h_other (b_bp b)) 0)); [constructor; cbn; auto; lia|].
  destruct (build_mm gm (b_tb b)) as [tb item]. cbn [fst].
  constructor; cbn; auto; try lia. destruct (filled item); rewrite ?app_length; cbn; lia.
Qed.

Lemma grows_bounded b b' : resting b -> grows b b' -> bounded b'.
Proof.
  intros Hr [Hbp Hq Ha Hm]. unfold bounded, max1. rewrite Hbp. destruct Hr as [H|H].
  - apply item_count_0 in H. destruct H as (E1 & E2 & E3). rewrite E1, E2, E3 in *. cbn in *. lia.
  - unfold blk_full in H. apply orb_false_iff in H. destruct H as [H H3]. apply orb_false_iff in H. destruct H as [H1 H2]. lia.
Qed.

(* the second component of an add call is exactly full() of the new block — or false for a refused AEC / MM *)
Lemma add_qr_full gr st b : snd (add_qr gr st b) = blk_full (fst (add_qr gr st b)).
Proof. unfold add_qr. destruct (build_qr (b_bp b) gr (b_tb b)). reflexivity. Qed.

(* ---------- write_block ---------- *)
Lemma blk_clear_resting b : resting (blk_clear b).
Proof. left. reflexivity. Qed.
Lemma blk_set_bp_resting b bp i : item_count b = 0 -> resting (fst (blk_set_bp b bp i)).
Proof.
  intros H. unfold blk_set_bp. rewrite H. cbn [N.ltb N.compare fst]. left. unfold item_count in *. cbn. exact H.
Qed.

Definition wf_done (x : exporter) : Prop := Forall (fun b => bounded b /\ item_count b <> 0) (x_done x).
Definition Inv (x : exporter) : Prop := resting (x_blk x) /\ wf_done x.

Lemma item_count_clear b : item_count (blk_clear b) = 0.
Proof. reflexivity. Qed.

Lemma write_block_ext_fields x b :
  x_blk (fst (write_block_ext x b)) = x_blk x
  /\ x_done (fst (write_block_ext x b)) = (if item_count b =? 0 then x_done x else x_done x ++ [b])
  /\ x_closed (fst (write_block_ext x b)) = x_closed x /\ x_params (fst (write_block_ext x b)) = x_params x
  /\ x_active (fst (write_block_ext x b)) = x_active x.
Proof.
  unfold write_block_ext. destruct (item_count b =? 0) eqn:E; cbn [fst]; [repeat split; auto|].
  destruct (enc_run (x_enc x) _) as [e' r]. cbn [fst x_done x_blk x_closed x_params x_active with_enc]. repeat split; auto.
Qed.

Lemma write_block_fields x :
  x_done (fst (write_block x)) = (if item_count (x_blk x) =? 0 then x_done x else x_done x ++ [x_blk x])
  /\ x_closed (fst (write_block x)) = x_closed x
  /\ b_qrs (x_blk (fst (write_block x))) = [] /\ b_aecs (x_blk (fst (write_block x))) = [] /\ b_mms (x_blk (fst (write_block x))) = []
  /\ b_tb (x_blk (fst (write_block x))) = tables_empty.
Proof.
  unfold write_block. pose proof (write_block_ext_fields x (x_blk x)) as (Hb & Hd & Hc & _).
  destruct (write_block_ext x (x_blk x)) as [x1 r]. cbn [fst] in *.
  unfold blk_set_bp. rewrite item_count_clear. cbn [N.ltb N.compare fst with_blk x_done x_closed x_blk b_qrs b_aecs b_mms b_tb blk_clear].
  repeat split; auto.
Qed.

Lemma write_block_ext_done x b : bounded b ->
  wf_done x -> wf_done (fst (write_block_ext x b)) /\ x_blk (fst (write_block_ext x b)) = x_blk x
  /\ x_done (fst (write_block_ext x b)) = (if item_count b =? 0 then x_done x else x_done x ++ [b])
  /\ x_closed (fst (write_block_ext x b)) = x_closed x /\ x_params (fst (write_block_ext x b)) = x_params x
  /\ x_active (fst (write_block_ext x b)) = x_active x.
Proof.
  intros Hb Hw. unfold write_block_ext. destruct (item_count b =? 0) eqn:E; cbn [fst]; [repeat split; auto|].
  destruct (enc_run (x_enc x) _) as [e' r]. cbn [fst x_done x_blk x_closed x_params x_active with_enc].
  repeat split; auto. unfold wf_done. cbn [x_done]. apply Forall_app. split; auto. constructor; auto. split; auto. lia.
Qed.

Lemma write_block_inv x : bounded (x_blk x) -> wf_done x -> Inv (fst (write_block x)).
Proof.
  intros Hb Hw. unfold write_block.
  pose proof (write_block_ext_done x (x_blk x) Hb Hw) as (Hw1 & Hb1 & Hd1 & _).
  destruct (write_block_ext x (x_blk x)) as [x1 r]. cbn [fst] in *.
  destruct (blk_set_bp (blk_clear (x_blk x1)) _ _) as [b' ok] eqn:E. cbn [fst].
  split.
  - cbn [x_blk with_blk]. replace b' with (fst (blk_set_bp (blk_clear (x_blk x1)) (nth_bp (x_params x1) (x_active x1)) (x_active x1))) by (rewrite E; reflexivity).
    apply blk_set_bp_resting. reflexivity.
  - unfold wf_done. cbn [x_done with_blk]. exact Hw1.
Qed.

Lemma write_block_qrs x : all_qrs (fst (write_block x)) = all_qrs x /\ all_mms (fst (write_block x)) = all_mms x
  /\ forall k, aec_total (fst (write_block x)) k = aec_total x k.
Proof.
  pose proof (write_block_fields x) as (Hd & _ & Hq & Ha & Hm & _).
  unfold all_qrs, all_mms, aec_total. rewrite Hd, Hq, Ha, Hm.
  destruct (item_count (x_blk x) =? 0) eqn:E.
  - apply N.eqb_eq in E. apply item_count_0 in E. destruct E as (E1 & E2 & E3). rewrite E1, E2, E3. repeat split; auto.
  - rewrite !flat_map_app. cbn [flat_map]. rewrite !app_nil_r. repeat split; auto.
    intros k. rewrite fold_right_app. cbn [fold_right aec_count].
    assert (Hf : forall l a, fold_right (fun b a0 => aec_count (b_aecs b) k + a0) a l = fold_right (fun b a0 => aec_count (b_aecs b) k + a0) 0 l + a).
    { induction l as [|y l IH]; intros a; cbn [fold_right]; [lia|]. rewrite IH. lia. }
    rewrite Hf. lia.
Qed.

(* ---------- every step keeps the invariant, conserves records, and never touches a closed output ---------- *)
Lemma buffer_inv add x : (forall b, grows b (fst (add b))) -> (forall b, snd (add b) = true -> blk_full (fst (add b)) = true) ->
  (forall b, snd (add b) = false -> blk_full (fst (add b)) = false \/ fst (add b) = b) ->
  Inv x -> Inv (fst (buffer add x)).
Proof.
  intros Hg Hfull Hnf [Hr Hw]. unfold buffer. destruct (add (x_blk x)) as [b' full] eqn:E.
  pose proof (Hg (x_blk x)) as Hgr. rewrite E in Hgr. cbn [fst] in Hgr.
  pose proof (grows_bounded _ _ Hr Hgr) as Hb.
  destruct full.
  - apply write_block_inv; auto.
  - cbn [fst]. split; auto. cbn [x_blk with_blk].
    specialize (Hnf (x_blk x)). rewrite E in Hnf. cbn [fst snd] in Hnf. destruct (Hnf eq_refl) as [H| ->]; [right; exact H|exact Hr].
Qed.

Lemma add_aec_snd ga st b : (snd (add_aec ga st b) = true -> blk_full (fst (add_aec ga st b)) = true) /\
  (snd (add_aec ga st b) = false -> blk_full (fst (add_aec ga st b)) = false \/ fst (add_aec ga st b) = b).
Proof.
  unfold add_aec. destruct (negb (N.testbit (h_other (b_bp b)) 1)); [split; [discriminate|auto]|].
  destruct (add_to (b_tb b) T_ip (oval (nth_o ga 3))). cbn [fst snd]. split; auto.
Qed.
Lemma add_mm_snd gm st b : (snd (add_mm gm st b) = true -> blk_full (fst (add_mm gm st b)) = true) /\
  (snd (add_mm gm st b) = false -> blk_full (fst (add_mm gm st b)) = false \/ fst (add_mm gm st b) = b).
Proof.
  unfold add_mm. destruct (negb (N.testbit (h_other (b_bp b)) 0)); [split; [discriminate|auto]|].
  destruct (build_mm gm (b_tb b)). cbn [fst snd]. split; auto.
Qed.

Theorem xstep_inv x o : Inv x -> Inv (fst (xstep x o)).
Proof.
  intros HI. destruct o as [gr st|ga st|gm st| |e|bp|i]; cbn [xstep].
  - apply buffer_inv; auto.
    + intros b. apply add_qr_grows.
    + intros b H. rewrite add_qr_full in H. exact H.
    + intros b H. rewrite add_qr_full in H. left. exact H.
  - apply buffer_inv; auto.
    + intros b. apply add_aec_grows.
    + intros b. apply add_aec_snd.
    + intros b. apply add_aec_snd.
  - apply buffer_inv; auto.
    + intros b. apply add_mm_grows.
    + intros b. apply add_mm_snd.
    + intros b. apply add_mm_snd.
  - destruct HI as [Hr Hw]. apply write_block_inv; auto. apply resting_bounded; auto.
  - destruct HI as [Hr Hw]. unfold rotate. destruct e.
    + pose proof (write_block_inv x (resting_bounded _ Hr) Hw) as HI1. destruct (write_block x) as [x1 r1]. cbn [fst] in HI1.
      destruct (if 0 <? x_written x1 then _ else _) as [e2 r2]. cbn [fst]. exact HI1.
    + destruct (if 0 <? x_written x then _ else _) as [e2 r2]. cbn [fst]. split; auto.
  - destruct HI as [Hr Hw]. split; auto.
  - destruct HI as [Hr Hw]. unfold set_active. destruct (N.of_nat (length (x_params x)) <=? i); cbn [fst]; split; auto.
Qed.

Lemma x_new_inv pre : Inv (x_new pre).
Proof.
  unfold x_new. destruct pre as [| | | | |[|ma [|mi [|pv [|[[| | | |ps|]|] [|? ?]]]]]]; (split; [left; reflexivity|constructor]).
Qed.

Theorem xrun_inv ops : forall x, Inv x -> Inv (xrun x ops).
Proof. induction ops as [|o ops IH]; intros x H; cbn [xrun fold_left]; auto. apply IH. apply xstep_inv. exact H. Qed.

(* closed outputs are frozen: a step only ever puts a new output in front of them *)
Theorem xstep_closed x o : exists new, x_closed (fst (xstep x o)) = new ++ x_closed x.
Proof.
  assert (Hwb : forall y, x_closed (fst (write_block y)) = x_closed y).
  { intros y. apply write_block_fields. }
  assert (Hbuf : forall add y, x_closed (fst (buffer add y)) = x_closed y).
  { intros add y. unfold buffer. destruct (add (x_blk y)) as [b' f]. destruct f; [rewrite Hwb|]; reflexivity. }
  destruct o as [gr st|ga st|gm st| |e|bp|i]; cbn [xstep]; try (exists []; cbn [app]; first [apply Hbuf|apply Hwb|reflexivity]).
  - unfold rotate. destruct e.
    + pose proof (Hwb x) as H. destruct (write_block x) as [x1 r1]. cbn [fst] in H.
      destruct (if 0 <? x_written x1 then _ else _) as [e2 r2]. cbn [fst x_closed]. rewrite H. eexists [_]. reflexivity.
    + destruct (if 0 <? x_written x then _ else _) as [e2 r2]. cbn [fst x_closed]. eexists [_]. reflexivity.
  - unfold set_active. destruct (N.of_nat (length (x_params x)) <=? i); exists []; reflexivity.
Qed.

(* conservation of query/response records and malformed messages: a step appends exactly the stored form of the
   submitted record (nothing for a record with no storable member), and nothing else changes the sequence *)
Definition stored_qr (x : exporter) (gr : list (option val)) : list val :=
  let item := snd (build_qr (b_bp (x_blk x)) gr (b_tb (x_blk x))) in if filled item then [VR item] else [].
Definition stored_mm (x : exporter) (gm : list (option val)) : list val :=
  if negb (N.testbit (h_other (b_bp (x_blk x))) 0) then [] else
  let item := snd (build_mm gm (b_tb (x_blk x))) in if filled item then [VR item] else [].

Lemma buffer_qrs add x : all_qrs (fst (buffer add x)) = flat_map b_qrs (x_done x) ++ b_qrs (fst (add (x_blk x))) /\
  all_mms (fst (buffer add x)) = flat_map b_mms (x_done x) ++ b_mms (fst (add (x_blk x))).
Proof.
  unfold buffer. destruct (add (x_blk x)) as [b' f]. cbn [fst]. destruct f.
  - destruct (write_block_qrs (with_blk x b')) as (H1 & H2 & _). rewrite H1, H2. split; reflexivity.
  - split; reflexivity.
Qed.

Theorem xstep_conserves_qr x o :
  all_qrs (fst (xstep x o)) = all_qrs x ++ match o with XQr gr _ => stored_qr x gr | _ => [] end.
Proof.
  destruct o as [gr st|ga st|gm st| |e|bp|i]; cbn [xstep]; unfold buffer_qr, buffer_aec, buffer_mm.
  - destruct (buffer_qrs (add_qr gr st) x) as [H _]. rewrite H. unfold all_qrs, stored_qr, add_qr.
    destruct (build_qr (b_bp (x_blk x)) gr (b_tb (x_blk x))) as [tb item]. cbn [fst snd b_qrs].
    destruct (filled item); rewrite ?app_nil_r, ?app_assoc; reflexivity.
  - destruct (buffer_qrs (add_aec ga st) x) as [H _]. rewrite H, app_nil_r. unfold all_qrs, add_aec.
    destruct (negb (N.testbit (h_other (b_bp (x_blk x))) 1)); [reflexivity|]. destruct (add_to _ _ _). reflexivity.
  - destruct (buffer_qrs (add_mm gm st) x) as [H _]. rewrite H, app_nil_r. unfold all_qrs, add_mm.
    destruct (negb (N.testbit (h_other (b_bp (x_blk x))) 0)); [reflexivity|]. destruct (build_mm _ _). reflexivity.
  - rewrite app_nil_r. apply write_block_qrs.
  - rewrite app_nil_r. unfold rotate. destruct e.
    + destruct (write_block_qrs x) as (H & _). destruct (write_block x) as [x1 r1]. cbn [fst] in H.
      destruct (if 0 <? x_written x1 then _ else _). cbn [fst]. exact H.
    + destruct (if 0 <? x_written x then _ else _). reflexivity.
  - rewrite app_nil_r. reflexivity.
  - rewrite app_nil_r. unfold set_active. destruct (_ <=? _); reflexivity.
Qed.

Theorem xstep_conserves_mm x o :
  all_mms (fst (xstep x o)) = all_mms x ++ match o with XMm gm _ => stored_mm x gm | _ => [] end.
Proof.
  destruct o as [gr st|ga st|gm st| |e|bp|i]; cbn [xstep]; unfold buffer_qr, buffer_aec, buffer_mm.
  - destruct (buffer_qrs (add_qr gr st) x) as [_ H]. rewrite H, app_nil_r. unfold all_mms, add_qr.
    destruct (build_qr _ _ _). reflexivity.
  - destruct (buffer_qrs (add_aec ga st) x) as [_ H]. rewrite H, app_nil_r. unfold all_mms, add_aec.
    destruct (negb (N.testbit (h_other (b_bp (x_blk x))) 1)); [reflexivity|]. destruct (add_to _ _ _). reflexivity.
  - destruct (buffer_qrs (add_mm gm st) x) as [_ H]. rewrite H. unfold all_mms, stored_mm, add_mm.
    destruct (negb (N.testbit (h_other (b_bp (x_blk x))) 0)); [rewrite app_nil_r; reflexivity|].
    destruct (build_mm gm (b_tb (x_blk x))) as [tb item]. cbn [fst snd b_mms].
    destruct (filled item); rewrite ?app_nil_r, ?app_assoc; reflexivity.
  - rewrite app_nil_r. apply write_block_qrs.
  - rewrite app_nil_r. unfold rotate. destruct e.
    + destruct (write_block_qrs x) as (_ & H & _). destruct (write_block x) as [x1 r1]. cbn [fst] in H.
      destruct (if 0 <? x_written x1 then _ else _). cbn [fst]. exact H.
    + destruct (if 0 <? x_written x then _ else _). reflexivity.
  - rewrite app_nil_r. reflexivity.
  - rewrite app_nil_r. unfold set_active. destruct (_ <=? _); reflexivity.
Qed.

(* the tables of the buffered block never hold two equal entries *)
Definition tb_inv (x : exporter) : Prop := tb_nodup (b_tb (x_blk x)).
Lemma tables_empty_nodup : tb_nodup tables_empty.
Proof. intros i. destruct i; constructor. Qed.
Lemma write_block_tb x : tb_inv (fst (write_block x)).
Proof.
  unfold tb_inv. pose proof (write_block_fields x) as (_ & _ & _ & _ & _ & H). rewrite H. apply tables_empty_nodup.
Qed.
Theorem xstep_tb x o : tb_inv x -> tb_inv (fst (xstep x o)).
Proof.
  intros H.
  assert (Hbuf : forall add, tb_nodup (b_tb (fst (add (x_blk x)))) -> tb_inv (fst (buffer add x))).
  { intros add Ha. unfold buffer. destruct (add (x_blk x)) as [b' f]. destruct f; [apply write_block_tb|exact Ha]. }
  destruct o as [gr st|ga st|gm st| |e|bp|i]; cbn [xstep]; unfold buffer_qr, buffer_aec, buffer_mm.
  - apply Hbuf. unfold add_qr. pose proof (build_qr_good (b_bp (x_blk x)) gr (b_tb (x_blk x))) as [Hn _].
    destruct (build_qr _ _ _). cbn [fst b_tb] in *. auto.
  - apply Hbuf. unfold add_aec. destruct (negb _); [exact H|].
    pose proof (add_to_good (b_tb (x_blk x)) T_ip (oval (nth_o ga 3))) as [Hn _]. destruct (add_to _ _ _). cbn [fst b_tb] in *. auto.
  - apply Hbuf. unfold add_mm. destruct (negb _); [exact H|].
    pose proof (build_mm_good gm (b_tb (x_blk x))) as [Hn _]. destruct (build_mm _ _). cbn [fst b_tb] in *. auto.
  - apply write_block_tb.
  - unfold rotate. destruct e.
    + pose proof (write_block_tb x) as H1. destruct (write_block x) as [x1 r1]. destruct (if 0 <? x_written x1 then _ else _). exact H1.
    + destruct (if 0 <? x_written x then _ else _). exact H.
  - exact H.
  - unfold set_active. destruct (_ <=? _); exact H.
Qed.

(* address-event counts: an accepted buffer_aec call adds exactly one to the total of its key, nothing else changes any total *)
Definition aec_key_of (x : exporter) (ga : list (option val)) : val :=
  let '(_, ix) := add_to (b_tb (x_blk x)) T_ip (oval (nth_o ga 3)) in
  VR [nth_o ga 0; nth_o ga 1; Some (VN ix); nth_o ga 2; Some (VN 0)].

Lemma buffer_aec_total add x k : aec_total (fst (buffer add x)) k =
  fold_right (fun b a => aec_count (b_aecs b) k + a) 0 (x_done x) + aec_count (b_aecs (fst (add (x_blk x)))) k.
Proof.
  unfold buffer. destruct (add (x_blk x)) as [b' f]. cbn [fst]. destruct f.
  - destruct (write_block_qrs (with_blk x b')) as (_ & _ & H). rewrite H. reflexivity.
  - reflexivity.
Qed.

Theorem xstep_conserves_aec x o k :
  aec_total (fst (xstep x o)) k = aec_total x k +
  match o with
  | XAec ga _ => if N.testbit (h_other (b_bp (x_blk x))) 1 then (if val_eqb (aec_key_of x ga) k then 1 else 0) else 0
  | _ => 0
  end.
Proof.
  destruct o as [gr st|ga st|gm st| |e|bp|i]; cbn [xstep]; unfold buffer_qr, buffer_aec, buffer_mm.
  - rewrite buffer_aec_total. unfold aec_total, add_qr. destruct (build_qr _ _ _). cbn [fst b_aecs]. lia.
  - rewrite buffer_aec_total. unfold aec_total, add_aec, aec_key_of.
    destruct (N.testbit (h_other (b_bp (x_blk x))) 1); cbn [negb]; [|cbn [fst]; lia].
    destruct (add_to (b_tb (x_blk x)) T_ip (oval (nth_o ga 3))) as [tb ix]. cbn [fst b_aecs].
    rewrite aec_bump_count. lia.
  - rewrite buffer_aec_total. unfold aec_total, add_mm. destruct (negb _); [cbn [fst]; lia|]. destruct (build_mm _ _). cbn [fst b_aecs]. lia.
  - rewrite N.add_0_r. apply write_block_qrs.
  - rewrite N.add_0_r. unfold rotate. destruct e.
    + destruct (write_block_qrs x) as (_ & _ & H). specialize (H k). destruct (write_block x) as [x1 r1]. cbn [fst] in H.
      destruct (if 0 <? x_written x1 then _ else _). cbn [fst]. exact H.
    + destruct (if 0 <? x_written x then _ else _). reflexivity.
  - rewrite N.add_0_r. reflexivity.
  - rewrite N.add_0_r. unfold set_active. destruct (_ <=? _); reflexivity.
Qed.

(* an output to which no block was written receives no data: the encoder is untouched until the first block *)
Definition fresh_inv (x : exporter) : Prop := x_written x = 0 -> x_enc x = enc_init.
Lemma write_block_fresh x : fresh_inv x -> fresh_inv (fst (write_block x)).
Proof.
  intros H. unfold write_block, write_block_ext. destruct (item_count (x_blk x) =? 0).
  - destruct (blk_set_bp _ _ _). exact H.
  - destruct (enc_run _ _) as [e' r]. destruct (blk_set_bp _ _ _). unfold fresh_inv. cbn. lia.
Qed.
Theorem xstep_fresh x o : fresh_inv x -> fresh_inv (fst (xstep x o)).
Proof.
  intros H.
  assert (Hbuf : forall add, fresh_inv (fst (buffer add x))).
  { intros add. unfold buffer. destruct (add (x_blk x)) as [b' f]. destruct f; [apply write_block_fresh|]; exact H. }
  destruct o as [gr st|ga st|gm st| |e|bp|i]; cbn [xstep]; try apply Hbuf.
  - apply write_block_fresh; auto.
  - unfold rotate. destruct e.
    + destruct (write_block x) as [x1 r1]. destruct (if 0 <? x_written x1 then _ else _). intros _. reflexivity.
    + destruct (if 0 <? x_written x then _ else _). intros _. reflexivity.
  - exact H.
  - unfold set_active. destruct (_ <=? _); exact H.
Qed.
Lemma x_new_fresh pre : fresh_inv (x_new pre).
Proof. unfold x_new. destruct pre as [| | | | |[|ma [|mi [|pv [|[[| | | |ps|]|] [|? ?]]]]]]; intros _; reflexivity. Qed.

Theorem rotate_empty_output x : fresh_inv x -> x_written x = 0 ->
  hd [] (x_closed (fst (rotate false x))) = [] /\ snd (rotate false x) = 0 /\ destroy x = [].
Proof.
  intros Hf Hw. unfold rotate, destroy. rewrite Hw. cbn [N.ltb N.compare]. rewrite (Hf Hw). cbn. auto.
Qed.

(* byte counts: the value a run of encoder operations returns is the number of bytes by which the stream grew *)
Lemma fold_add_lengths ops acc : fold_left N.add (map (fun o => N.of_nat (length (spec_enc o))) ops) acc
  = acc + N.of_nat (length (bytes_of ops)).
Proof.
  revert acc. induction ops as [|o ops IH]; intros acc; unfold bytes_of in *; cbn [map fold_left flat_map length]; [lia|].
  rewrite IH, app_length. lia.
Qed.
Theorem enc_run_spec e ops : inv e -> Forall in_range ops ->
  stream (fst (enc_run e ops)) = stream e ++ bytes_of ops /\ snd (enc_run e ops) = N.of_nat (length (bytes_of ops))
  /\ inv (fst (enc_run e ops)).
Proof.
  intros Hi Hr. unfold enc_run. pose proof (eruns_spec ops e Hi Hr) as H.
  destruct (eruns e ops) as [e' rs]. destruct H as (Hs & Hrs & Hi'). cbn [fst snd]. repeat split; auto.
  rewrite Hrs, fold_add_lengths. lia.
Qed.
