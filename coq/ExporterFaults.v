(* ExporterFaults.v — the exporter on a DESCRIPTOR output whose write(2) calls may be rejected or cut short (C16): what each API call does when
   the k-th write of the scenario fails.  Executable, no proofs here.

   The code: CdnsEncoder::flush_buffer is  { m_cos->write(m_buffer, m_p - m_buffer); m_p = m_buffer; m_avail = BUFFER_SIZE; }  and
   Writer<int>::write is  { ret = ::write(fd, p, size); if (ret != size) throw CborOutputException; }.  When the write throws, the staging
   buffer keeps its content (m_p is not reset), every encoding operation after the flush is abandoned, and the exception leaves
   CdnsExporter::write_block(block) before m_blocks_written++ and write_block() before m_block.clear(): the block stays buffered.
   rotate_output(out, e) is  { if (e) write_block(); if (m_blocks_written > 0) write_break(); m_encoder.rotate_output(out) [= flush_buffer();
   m_cos->rotate_output(out)]; m_blocks_written = 0; }  - an exception anywhere in it leaves the old output in place. *)
Require Import Base Cbor EncoderModel DecoderModel Schema Timestamp Block Exporter Writer ExporterIO.
Local Open Scope N_scope.

(* the operating system: its answers to the successive write(2) calls of the whole scenario - None: everything is accepted; Some n: only the
   first n bytes are (n = 0: ENOSPC / EIO), so the call is short.  [os_rest] answers every call after the listed ones (persistent failure). *)
Record os := mkOs { os_plan : list (option N); os_rest : option N }.
Definition os_next (s : os) : option N * os :=
  match os_plan s with [] => (os_rest s, s) | a :: r => (a, mkOs r (os_rest s)) end.

(* one descriptor output: the bytes it holds, the bytes handed to write(2) for it *)
Record dout := mkDout { d_stored : list N; d_intended : list N }.
Definition dout_new : dout := mkDout [] [].
Definition d_lost (o : dout) : bool := negb (N.of_nat (length (d_stored o)) =? N.of_nat (length (d_intended o))).

(* Writer<int>::write on one chunk *)
Definition d_write (s : os) (o : dout) (bs : list N) : os * dout * outcome :=
  let '(a, s') := os_next s in
  match a with
  | None => (s', mkDout (d_stored o ++ bs) (d_intended o ++ bs), Done)
  | Some n => if N.of_nat (length bs) <=? n then (s', mkDout (d_stored o ++ bs) (d_intended o ++ bs), Done)
              else (s', mkDout (d_stored o ++ firstn (N.to_nat n) bs) (d_intended o ++ bs), Threw)
  end.

(* the flushes of one API call, in order; the index of the first that throws *)
Fixpoint feed (s : os) (o : dout) (cs : list (list N)) (j : nat) : os * dout * option nat :=
  match cs with
  | [] => (s, o, None)
  | c :: r => let '(s', o', oc) := d_write s o c in
              match oc with Done => feed s' o' r (S j) | Threw => (s', o', Some j) end
  end.

(* the encoder at the moment its j-th new flush throws: the chunk is still staged, the earlier ones have been handed over *)
Definition enc_fail (e : enc) (new : list (list N)) (j : nat) : enc := mkEnc (nth j new []) (rev (firstn j new) ++ chunks e).
Definition set_enc (x : exporter) (e : enc) : exporter :=
  mkX (x_major x) (x_minor x) (x_private x) (x_params x) (x_blk x) (x_active x) (x_written x) e (x_closed x) (x_done x).

(* the exporter at the moment a buffering call starts to write its block: the record has been added *)
Definition pre_write (x : exporter) (o : xop) : exporter :=
  match o with
  | XQr gr st => with_blk x (fst (add_qr gr st (x_blk x)))
  | XAec ga st => with_blk x (fst (add_aec ga st (x_blk x)))
  | XMm gm st => with_blk x (fst (add_mm gm st (x_blk x)))
  | _ => x
  end.

Record fx := mkFx {
  f_x : exporter;
  f_os : os;
  f_cur : dout;                       (* the open output *)
  f_threw : bool;                     (* ghost: an API call has thrown since the open output was opened *)
  f_closed : list (dout * bool) }.    (* outputs closed by a rotation that returned, newest first, with that flag *)

(* one API call: (new state, Done and the returned count | Threw) *)
Definition fstep (s : fx) (o : xop) : fx * outcome * N :=
  let x := f_x s in
  match o with
  | XRot e =>
      let x1 := fst (if e then write_block x else (x, 0)) in
      let cs1 := new_chunks (x_enc x) (x_enc x1) in                    (* flushed while the buffered block is written *)
      match feed (f_os s) (f_cur s) cs1 0 with
      | (os1, cur1, Some j) => (mkFx (set_enc x (enc_fail (x_enc x) cs1 j)) os1 cur1 true (f_closed s), Threw, 0)
      | (os1, cur1, None) =>
          let cs2 := new_chunks (x_enc x1) (closing_enc x1) in         (* the break, and the flush before the writer is rotated *)
          match feed os1 cur1 cs2 0 with
          | (os2, cur2, Some j) => (mkFx (set_enc x1 (enc_fail (x_enc x1) cs2 j)) os2 cur2 true (f_closed s), Threw, 0)
          | (os2, cur2, None) => (mkFx (fst (rotate e x)) os2 dout_new false ((cur2, f_threw s) :: f_closed s), Done, snd (rotate e x))
          end
      end
  | _ =>
      let '(x', r) := xstep x o in
      let cs := new_chunks (x_enc x) (x_enc x') in
      match feed (f_os s) (f_cur s) cs 0 with
      | (os1, cur1, Some j) => (mkFx (set_enc (pre_write x o) (enc_fail (x_enc x) cs j)) os1 cur1 true (f_closed s), Threw, 0)
      | (os1, cur1, None) => (mkFx x' os1 cur1 (f_threw s) (f_closed s), Done, r)
      end
  end.

Definition fx_new (pre : val) (plan : os) : fx := mkFx (x_new pre) plan dout_new false [].
Fixpoint frun (s : fx) (ops : list xop) : fx * list (outcome * N) :=
  match ops with
  | [] => (s, [])
  | o :: r => let '(s1, oc, n) := fstep s o in let '(s2, l) := frun s1 r in (s2, (oc, n) :: l)
  end.

(* ~CdnsExporter { try { if (m_blocks_written > 0) m_encoder.write_break(); } catch (...) {} } followed by ~CdnsEncoder { try { flush_buffer(); }
   catch (...) {} }: failures are swallowed (a destructor cannot throw); when the flush inside write_break fails the break is not appended and
   the encoder's destructor tries the same buffer once more.  What the open output then holds. *)
Definition fdestroy (s : fx) : dout :=
  let x := f_x s in
  let e2 := fst (if 0 <? x_written x then enc_run (x_enc x) [OBreak] else (x_enc x, 0)) in
  let csa := new_chunks (x_enc x) e2 in
  let '(os1, cur1, r) := feed (f_os s) (f_cur s) csa 0 in
  let e3 := match r with Some j => enc_fail (x_enc x) csa j | None => e2 end in
  match buf e3 with
  | [] => cur1
  | b => let '(_, cur2, _) := d_write os1 cur1 b in cur2
  end.
