(* SchemaProofs.v — generic lemmas about the descriptor interpreters of Schema.v:
   (A) what a structure's write produces is the serialisation of ONE well-formed CBOR item ([tree_of]) whose declared
       lengths equal the members present;  (B) read is the inverse of write for every well-typed value of every
       descriptor with pairwise distinct keys. *)
Require Import Base Cbor SpecEnc EncoderModel EncoderProofs DecoderModel DecoderProofs Schema.
Local Open Scope N_scope.

(* ---------- preferred head width ---------- *)
Definition pw (n : N) : width :=
  if n <? 24 then W0 else if n <? 256 then W1 else if n <? 65536 then W2 else if n <? 4294967296 then W4 else W8.

Lemma pw_fits n : n < two64 -> wfits (pw n) n.
Proof.
  unfold pw, two64. intros H.
  destruct (N.ltb_spec n 24); [exact H0|].
  destruct (N.ltb_spec n 256); [cbn; lia|].
  destruct (N.ltb_spec n 65536); [cbn; lia|].
  destruct (N.ltb_spec n 4294967296); cbn; lia.
Qed.

Lemma spec_head_pw m n : spec_head (mcode m) n = head m (pw n) n.
Proof.
  unfold spec_head, pw, head.
  destruct (N.ltb_spec n 24); [reflexivity|].
  destruct (N.ltb_spec n 256); [reflexivity|].
  destruct (N.ltb_spec n 65536); [reflexivity|].
  destruct (N.ltb_spec n 4294967296); reflexivity.
Qed.

(* ---------- the canonical tree of a value ---------- *)
Definition int_item (z : Z) : item :=
  if (z <? 0)%Z then IInt true (pw (Z.to_N (-1 - z))) (Z.to_N (-1 - z)) else IInt false (pw (Z.to_N z)) (Z.to_N z).
Definition uint_item (n : N) : item := IInt false (pw n) n.
Definition key_item (k : Z) : item := int_item k.

Fixpoint tree_of (t : ty) (v : val) {struct t} : item :=
  match t, v with
  | TU _, VN n => uint_item n
  | TI, VZ z => int_item z
  | TBool, VB b => ISeven W0 (if b then 21 else 20)
  | TText, VS bs => IStr true (pw (N.of_nat (length bs))) bs
  | TBytes, VS bs => IStr false (pw (N.of_nat (length bs))) bs
  | TTime, VL [VN s; VN k] => ICont false W0 [uint_item s; uint_item k]
  | TArr e, VL xs => ICont false (pw (N.of_nat (length xs))) (map (tree_of e) xs)
  | TIdx, VL xs => ICont false (pw (N.of_nat (length xs)))
                     (map (fun x => match x with VN n => uint_item n | _ => ISeven W0 0 end) xs)
  | TMap sk _ fs, VR vs => ICont true (pw (count_present fs vs)) (tree_fields fs vs)
  | _, _ => ISeven W0 0
  end
with tree_fields (fs : fields) (vs : list (option val)) {struct fs} : list item :=
  match fs, vs with
  | FCons k p t r, v :: vs' =>
      (match v with
       | Some x => if present p v then [key_item k; tree_of t x] else []
       | None => []
       end) ++ tree_fields r vs'
  | _, _ => []
  end.

Definition bytes_of (ops : list eop) : list N := flat_map spec_enc ops.

Lemma spec_uint_item n : spec_uint n = ser (uint_item n).
Proof. unfold spec_uint, uint_item. cbn [ser mint]. apply (spec_head_pw MU). Qed.
Lemma spec_int_item z : spec_int z = ser (int_item z).
Proof.
  unfold spec_int, int_item. destruct (z <? 0)%Z; cbn [ser mint].
  - apply (spec_head_pw MN).
  - apply (spec_head_pw MU).
Qed.

Lemma op_uint_bytes bits n : spec_enc (op_uint bits n) = ser (uint_item n).
Proof.
  unfold op_uint. destruct (bits =? 8); [apply spec_uint_item|]. destruct (bits =? 16); [apply spec_uint_item|].
  destruct (bits =? 32); apply spec_uint_item.
Qed.
Lemma op_key_bytes (sk : bool) k : (if sk return Prop then (-128 <= k < 128)%Z else (0 <= k < 256)%Z) ->
  spec_enc (op_key sk k) = ser (key_item k).
Proof.
  intros H. unfold op_key, key_item. destruct sk; cbn [spec_enc].
  - apply spec_int_item.
  - rewrite spec_uint_item. unfold int_item. assert ((k <? 0)%Z = false) as -> by lia. reflexivity.
Qed.

Lemma all_Forall {A} (P : A -> Prop) l :
  (fix all l := match l with [] => True | x :: l' => P x /\ all l' end) l <-> Forall P l.
Proof. induction l as [|a l IH]; split; intros H; try constructor; try tauto; inversion H; subst; tauto. Qed.

Scheme ty_mind := Induction for ty Sort Prop
  with fields_mind := Induction for fields Sort Prop.
Combined Scheme ty_fields_ind from ty_mind, fields_mind.

Lemma tree_fields_length fs : forall vs, N.of_nat (length (tree_fields fs vs)) = 2 * count_present fs vs.
Proof.
  induction fs as [|k p t r IH]; intros vs; [reflexivity|].
  destruct vs as [|v vs]; [reflexivity|]. cbn [tree_fields count_present]. rewrite app_length, Nat2N.inj_add, IH.
  destruct v as [x|]; [|cbn; lia]. destruct (present p (Some x)); cbn [length]; lia.
Qed.

(* (A1) the bytes written are the serialisation of the canonical tree *)
Lemma write_is_tree :
  (forall t v, has_ty t v -> bytes_of (write_val t v) = ser (tree_of t v)) /\
  (forall fs sk vs, fields_ty sk fs vs -> bytes_of (write_fields sk fs vs) = flat_map ser (tree_fields fs vs)).
Proof.
  apply ty_fields_ind; unfold bytes_of.
  - intros bits [n|z|b|bs|xs|fs] H; try contradiction. cbn [write_val flat_map tree_of]. rewrite app_nil_r. apply op_uint_bytes.
  - intros [n|z|b|bs|xs|fs] H; try contradiction. cbn [write_val flat_map tree_of spec_enc]. rewrite app_nil_r. apply spec_int_item.
  - intros [n|z|b|bs|xs|fs] H; try contradiction. cbn [write_val flat_map tree_of spec_enc]. destruct b; reflexivity.
  - intros [n|z|b|bs|xs|fs] H; try contradiction. cbn [write_val flat_map tree_of spec_enc ser mstr]. rewrite app_nil_r.
    unfold spec_text. rewrite (spec_head_pw MT). reflexivity.
  - intros [n|z|b|bs|xs|fs] H; try contradiction. cbn [write_val flat_map tree_of spec_enc ser mstr]. rewrite app_nil_r.
    unfold spec_bytes. rewrite (spec_head_pw MB). reflexivity.
  - intros [n|z|b|bs|xs|fs] H; try contradiction.
    destruct xs as [|[s| | | | |] [|[k| | | | |] [|? ?]]]; try contradiction.
    cbn [write_val flat_map tree_of spec_enc]. rewrite !spec_uint_item. cbn [ser flat_map mcont cnt length app].
    rewrite app_nil_r. reflexivity.
  - intros e IH [n|z|b|bs|xs|fs] H; try contradiction. cbn [has_ty] in H. destruct H as [_ H]. apply all_Forall in H.
    cbn [write_val flat_map tree_of spec_enc ser mcont cnt]. rewrite map_length.
    unfold spec_array_start. rewrite (spec_head_pw MA). f_equal.
    induction H as [|x xs Hx _ IHl]; [reflexivity|]. cbn [flat_map map]. rewrite flat_map_app, IH by auto. f_equal. exact IHl.
  - intros [n|z|b|bs|xs|fs] H; try contradiction. cbn [has_ty] in H. destruct H as [_ H]. apply all_Forall in H.
    cbn [write_val flat_map tree_of spec_enc ser mcont cnt]. rewrite map_length.
    unfold spec_array_start. rewrite (spec_head_pw MA). f_equal.
    induction H as [|x xs Hx _ IHl]; [reflexivity|]. cbn [flat_map map]. rewrite flat_map_app. f_equal; [|exact IHl].
    destruct x; try contradiction. cbn [flat_map spec_enc]. rewrite app_nil_r. apply spec_uint_item.
  - intros sk accs fs IH [n|z|b|bs|xs|vs] H; try contradiction. cbn [has_ty] in H.
    cbn [write_val flat_map tree_of spec_enc ser mcont]. unfold cnt.
    rewrite tree_fields_length. replace (2 * count_present fs vs / 2) with (count_present fs vs)
      by (rewrite N.mul_comm, N.div_mul; lia).
    unfold spec_map_start. rewrite (spec_head_pw MM). f_equal. apply IH; auto.
  - intros sk vs H. destruct vs; reflexivity.
  - intros k p t IHt r IHr sk vs H. destruct vs as [|v vs]; [contradiction|].
    cbn [fields_ty] in H. destruct H as (Hk & Hv & Hr).
    cbn [write_fields tree_fields]. rewrite !flat_map_app. rewrite IHr by auto. f_equal.
    destruct v as [x|]; [|reflexivity].
    destruct (present p (Some x)) eqn:Hp; [|reflexivity].
    cbn [flat_map]. rewrite op_key_bytes by auto. rewrite app_nil_r. f_equal.
    fold (bytes_of (write_val t x)). apply IHt.
    destruct p; try tauto. destruct x; try contradiction. exact Hv.
Qed.

(* ---------- descriptor side conditions (decidable; checked by computation for the concrete descriptors) ---------- *)
Fixpoint fkeys (fs : fields) : list Z := match fs with FNil => [] | FCons k _ _ r => k :: fkeys r end.
Fixpoint nodupb (l : list Z) : bool :=
  match l with [] => true | k :: r => negb (existsb (Z.eqb k) r) && nodupb r end.
Fixpoint desc_ok (t : ty) : bool :=
  match t with
  | TArr e => desc_ok e
  | TMap sk _ fs => nodupb (fkeys fs) && (N.of_nat (flen fs) <? 1000) && fields_ok fs
  | _ => true
  end
with fields_ok (fs : fields) : bool :=
  match fs with FNil => true | FCons _ _ t r => desc_ok t && fields_ok r end.

Lemma nodupb_NoDup l : nodupb l = true -> NoDup l.
Proof.
  induction l as [|k r IH]; cbn; intros H; constructor.
  - apply andb_true_iff in H. destruct H as [H _]. intros Hin. apply negb_true_iff in H.
    assert (existsb (Z.eqb k) r = true); [|congruence]. apply existsb_exists. exists k. split; auto. apply Z.eqb_refl.
  - apply IH. apply andb_true_iff in H. tauto.
Qed.

(* ---------- generic loops ---------- *)
Definition reads (rd : prog val) (x : item) (v : val) : Prop := forall rest, run rd (ser x ++ rest) = (inl v, rest).

Lemma arr_loop_def rd : forall xs vs g racc rest, Forall2 (reads rd) xs vs -> (length xs <= g)%nat ->
  run (arr_loop rd g (N.of_nat (length xs)) false racc) (flat_map ser xs ++ rest) = (inl (rev racc ++ vs), rest).
Proof.
  induction xs as [|x xs IH]; intros vs g racc rest HF Hg; inversion HF as [|? v ? vs' Hx HF']; subst.
  - destruct g; cbn [arr_loop length N.of_nat N.eqb negb andb flat_map app run]; rewrite frev_rev, app_nil_r; reflexivity.
  - destruct g as [|g]; [cbn in Hg; lia|]. cbn [length arr_loop]. rewrite Nat2N.inj_succ.
    assert (N.succ (N.of_nat (length xs)) =? 0 = false) as -> by lia. cbn [andb negb].
    cbn [flat_map]. rewrite <- app_assoc, run_bind. rewrite Hx.
    replace (N.succ (N.of_nat (length xs)) - 1) with (N.of_nat (length xs)) by lia.
    rewrite (IH vs') by (auto; cbn in Hg; lia). cbn [rev]. rewrite <- app_assoc. reflexivity.
Qed.

Record entry := mkEntry { e_kx : item; e_vx : item; e_key : Z; e_upd : option (nat * val) }.
Definition ser_entry (e : entry) : list N := ser (e_kx e) ++ ser (e_vx e).
Definition apply_e (accs : list bool) (rec : list (option val)) (e : entry) : list (option val) :=
  match e_upd e with Some (i, v) => set_nth i (Some (upd_slot accs i (nth i rec None) v)) rec | None => rec end.
Definition entry_ok (rdk : Z -> option (nat * prog val)) (sk : prog unit) (e : entry) : Prop :=
  (forall rest, run read_integer (ser (e_kx e) ++ rest) = (inl (e_key e), rest)) /\
  match rdk (e_key e), e_upd e with
  | Some (i, rd), Some (j, v) => i = j /\ reads rd (e_vx e) v
  | None, None => forall rest, run sk (ser (e_vx e) ++ rest) = (inl tt, rest)
  | _, _ => False
  end.

Lemma map_loop_def accs rdk sk : forall es g rec rest, Forall (entry_ok rdk sk) es -> (length es <= g)%nat ->
  run (map_loop accs rdk sk g (N.of_nat (length es)) false rec) (flat_map ser_entry es ++ rest)
  = (inl (fold_left (apply_e accs) es rec), rest).
Proof.
  induction es as [|e es IH]; intros g rec rest HF Hg; inversion HF as [|? ? He HF']; subst.
  - destruct g; reflexivity.
  - destruct g as [|g]; [cbn in Hg; lia|]. cbn [length map_loop]. rewrite Nat2N.inj_succ.
    assert (N.succ (N.of_nat (length es)) =? 0 = false) as -> by lia. cbn [andb negb].
    cbn [flat_map]. unfold ser_entry at 1. rewrite <- !app_assoc, run_bind.
    destruct He as [Hk Hv]. rewrite Hk.
    replace (N.succ (N.of_nat (length es)) - 1) with (N.of_nat (length es)) by lia.
    cbn [fold_left]. unfold apply_e at 2.
    destruct (rdk (e_key e)) as [[i rd]|]; destruct (e_upd e) as [[j v]|]; try contradiction.
    + destruct Hv as [-> Hv]. rewrite run_bind, Hv. apply IH; auto. cbn in Hg; lia.
    + rewrite run_bind, Hv. apply IH; auto. cbn in Hg; lia.
Qed.

(* ---------- reading integers written in preferred form ---------- *)
Lemma read_uint_item n rest : n < two64 -> run read_unsigned (ser (uint_item n) ++ rest) = (inl n, rest).
Proof. intros H. apply read_unsigned_spec. apply pw_fits; auto. Qed.

Lemma read_int_item z rest : (- Z.of_N two63 <= z < Z.of_N two63)%Z ->
  run read_integer (ser (int_item z) ++ rest) = (inl z, rest).
Proof.
  intros H. unfold int_item. destruct (Z.ltb_spec z 0).
  - rewrite read_integer_spec by (apply pw_fits; unfold two63, two64 in *; lia).
    rewrite neg_of_small by (unfold two63 in *; lia). f_equal. f_equal. lia.
  - rewrite read_integer_spec by (apply pw_fits; unfold two63, two64 in *; lia).
    rewrite clamp_i64_small by (unfold two63 in *; lia). f_equal. f_equal. lia.
Qed.

Lemma read_key_item (sk : bool) k rest : (if sk return Prop then (-128 <= k < 128)%Z else (0 <= k < 256)%Z) ->
  run read_integer (ser (key_item k) ++ rest) = (inl k, rest).
Proof. intros H. apply read_int_item. unfold two63. destruct sk; lia. Qed.

(* ---------- lookups ---------- *)
Fixpoint lookup_ok (g : nat) (f : Z -> option (nat * prog val)) (i : nat) (fs : fields) : Prop :=
  match fs with
  | FNil => True
  | FCons k _ t r => f k = Some (i, read_val g t) /\ lookup_ok g f (S i) r
  end.

Lemma find_field_lookup g : forall fs j (f : Z -> option (nat * prog val)),
  (forall key, In key (fkeys fs) -> f key = find_field g fs j key) -> NoDup (fkeys fs) -> lookup_ok g f j fs.
Proof.
  induction fs as [|k p t r IH]; intros j f Hf Hnd; cbn [lookup_ok]; auto.
  cbn [fkeys] in *. inversion Hnd as [|? ? Hni Hnd']; subst. split.
  - rewrite Hf by (left; auto). cbn [find_field]. rewrite Z.eqb_refl. reflexivity.
  - apply IH; auto. intros key Hin. rewrite Hf by (right; auto). cbn [find_field].
    destruct (Z.eqb_spec key k); [subst; contradiction|reflexivity].
Qed.

(* the entries a well-typed record writes, with the slot each one fills *)
Fixpoint entries_of (i : nat) (fs : fields) (vs : list (option val)) : list entry :=
  match fs, vs with
  | FCons k p t r, v :: vs' =>
      (match v with
       | Some x => if present p v then [mkEntry (key_item k) (tree_of t x) k (Some (i, x))] else []
       | None => []
       end) ++ entries_of (S i) r vs'
  | _, _ => []
  end.

Lemma entries_ser fs : forall vs j, flat_map ser_entry (entries_of j fs vs) = flat_map ser (tree_fields fs vs).
Proof.
  induction fs as [|k p t r IH]; intros vs j; [reflexivity|]. destruct vs as [|v vs]; [reflexivity|].
  cbn [entries_of tree_fields]. rewrite !flat_map_app, IH. f_equal.
  destruct v as [x|]; [|reflexivity]. destruct (present p (Some x)); [|reflexivity].
  cbn [flat_map]. unfold ser_entry. cbn [e_kx e_vx]. rewrite !app_nil_r. reflexivity.
Qed.

Lemma entries_length fs : forall vs j, N.of_nat (length (entries_of j fs vs)) = count_present fs vs.
Proof.
  induction fs as [|k p t r IH]; intros vs j; [reflexivity|]. destruct vs as [|v vs]; [reflexivity|].
  cbn [entries_of count_present]. rewrite app_length, Nat2N.inj_add, IH.
  destruct v as [x|]; [|reflexivity]. destruct (present p (Some x)); reflexivity.
Qed.

Lemma set_nth_app {A} (pre : list A) x y post : set_nth (length pre) x (pre ++ y :: post) = pre ++ x :: post.
Proof. induction pre as [|a pre IH]; cbn; [reflexivity|]. rewrite IH. reflexivity. Qed.

(* a member read for the first time: its slot still holds the reset() value, and appending to that is replacing it *)
Lemma merge_val_init v : merge_val None v = v /\ merge_val (Some (VL [])) v = v.
Proof. split; [reflexivity|]. destruct v; reflexivity. Qed.
Lemma upd_slot_init accs i (p : presence) v : upd_slot accs i (match p with NonEmpty => Some (VL []) | _ => None end) v = v.
Proof. unfold upd_slot. destruct (nth i accs false); [|reflexivity]. destruct p; apply merge_val_init. Qed.
Lemma nth_middle_opt {A} (pre : list A) y post d : nth (length pre) (pre ++ y :: post) d = y.
Proof. induction pre as [|a pre IH]; [reflexivity|exact IH]. Qed.

Lemma entries_fold accs sk fs : forall vs pre, fields_ty sk fs vs ->
  fold_left (apply_e accs) (entries_of (length pre) fs vs) (pre ++ init_rec fs) = pre ++ vs.
Proof.
  induction fs as [|k p t r IH]; intros vs pre H.
  - destruct vs; [reflexivity|contradiction].
  - destruct vs as [|v vs]; [contradiction|]. cbn [fields_ty] in H. destruct H as (_ & Hv & Hr).
    cbn [entries_of init_rec]. rewrite fold_left_app.
    assert (Hstep : fold_left (apply_e accs)
              (match v with Some x => if present p v then [mkEntry (key_item k) (tree_of t x) k (Some (length pre, x))] else [] | None => [] end)
              (pre ++ (match p with NonEmpty => Some (VL []) | _ => None end) :: init_rec r) = (pre ++ [v]) ++ init_rec r).
    { destruct v as [x|].
      - destruct (present p (Some x)) eqn:Hp.
        + cbn [fold_left]. unfold apply_e. cbn [e_upd]. rewrite nth_middle_opt, upd_slot_init, set_nth_app, <- app_assoc. reflexivity.
        + cbn [fold_left]. unfold present in Hp. destruct p; try discriminate.
          destruct x as [| | | |xs|]; try discriminate. destruct xs; try discriminate. rewrite <- app_assoc. reflexivity.
      - cbn [fold_left]. destruct p; try contradiction. rewrite <- app_assoc. reflexivity. }
    rewrite Hstep. replace (S (length pre)) with (length (pre ++ [v])) by (rewrite app_length; cbn; lia).
    rewrite IH by auto. rewrite <- app_assoc. reflexivity.
Qed.

Lemma mand_ok_ty sk fs : forall vs, fields_ty sk fs vs -> mand_ok fs vs = true /\ fill_always fs vs = vs.
Proof.
  induction fs as [|k p t r IH]; intros vs H.
  - destruct vs; [split; reflexivity|contradiction].
  - destruct vs as [|v vs]; [contradiction|]. cbn [fields_ty] in H. destruct H as (_ & Hv & Hr).
    destruct (IH vs Hr) as [H1 H2]. cbn [mand_ok fill_always]. rewrite H1, H2.
    destruct p, v as [x|]; try contradiction; try (split; reflexivity).
    destruct Hv as [_ Hne]. destruct x as [| | | |xs|]; try (split; reflexivity). destruct xs; [congruence|split; reflexivity].
Qed.

(* ---------- size bookkeeping: every list is no longer than its encoding ---------- *)
Lemma ser_nonempty x : (1 <= length (ser x))%nat.
Proof. pose proof (bsize_le_ser x). destruct x; cbn [bsize] in *; lia. Qed.
Lemma length_le_flat xs : (length xs <= length (flat_map ser xs))%nat.
Proof. induction xs as [|x xs IH]; cbn [length flat_map]; [lia|]. rewrite app_length. pose proof (ser_nonempty x). lia. Qed.
Lemma length_entries_le es : (length es <= length (flat_map ser_entry es))%nat.
Proof.
  induction es as [|e es IH]; cbn [length flat_map]; [lia|]. rewrite app_length. unfold ser_entry at 1.
  rewrite app_length. pose proof (ser_nonempty (e_kx e)). lia.
Qed.
Lemma in_flat_le x xs : In x xs -> (length (ser x) <= length (flat_map ser xs))%nat.
Proof.
  induction xs as [|y xs IH]; intros H; [contradiction|]. cbn [flat_map]. rewrite app_length.
  destruct H as [->|H]; [lia|]. apply IH in H. lia.
Qed.

Lemma count_le_flen fs : forall vs, count_present fs vs <= N.of_nat (flen fs).
Proof.
  induction fs as [|k p t r IH]; intros vs; cbn [count_present flen]; [lia|].
  destruct vs as [|v vs]; [lia|]. specialize (IH vs). destruct (present p v); lia.
Qed.

Lemma Forall2_map_reads (rd : prog val) (f : val -> item) xs :
  Forall (fun x => reads rd (f x) x) xs -> Forall2 (reads rd) (map f xs) xs.
Proof. induction 1; cbn; constructor; auto. Qed.

(* (B) read is the inverse of write *)
Lemma read_roundtrip :
  (forall t v, desc_ok t = true -> has_ty t v -> forall g rest, (length (ser (tree_of t v)) <= g)%nat ->
      run (read_val g t) (ser (tree_of t v) ++ rest) = (inl v, rest)) /\
  (forall fs sk vs, fields_ok fs = true -> fields_ty sk fs vs -> forall g (f : Z -> option (nat * prog val)) i,
      lookup_ok g f i fs -> (length (flat_map ser (tree_fields fs vs)) <= g)%nat ->
      Forall (entry_ok f (skip_item g)) (entries_of i fs vs)).
Proof.
  apply ty_fields_ind.
  - (* TU *) intros bits [n|z|b|bs|xs|fs] _ H g rest Hg; try contradiction. cbn [has_ty] in H. destruct H as [Hn Hb].
    cbn [tree_of read_val]. assert (Hn64 : n < two64).
    { unfold two64. destruct Hb as [ -> | [ -> | [ -> | -> ] ] ]; cbn in Hn; lia. }
    rewrite run_bind, read_uint_item by auto. cbn [run]. rewrite N.mod_small by auto. reflexivity.
  - (* TI *) intros [n|z|b|bs|xs|fs] _ H g rest Hg; try contradiction. cbn [has_ty] in H.
    cbn [tree_of read_val]. rewrite run_bind, read_int_item by auto. reflexivity.
  - (* TBool *) intros [n|z|b|bs|xs|fs] _ H g rest Hg; try contradiction.
    cbn [tree_of read_val]. rewrite run_bind, read_bool_spec. reflexivity.
  - (* TText *) intros [n|z|b|bs|xs|fs] _ H g rest Hg; try contradiction. cbn [has_ty] in H. destruct H as [H _].
    cbn [tree_of read_val]. rewrite run_bind. unfold read_textstring.
    change MT with (mstr true). rewrite read_xstring_def; auto.
    + apply pw_fits; auto.
    + cbn [tree_of ser] in Hg. rewrite app_length in Hg. lia.
  - (* TBytes *) intros [n|z|b|bs|xs|fs] _ H g rest Hg; try contradiction. cbn [has_ty] in H. destruct H as [H _].
    cbn [tree_of read_val]. rewrite run_bind. unfold read_bytestring.
    change MB with (mstr false). rewrite read_xstring_def; auto.
    + apply pw_fits; auto.
    + cbn [tree_of ser] in Hg. rewrite app_length in Hg. lia.
  - (* TTime *) intros [n|z|b|bs|xs|fs] _ H g rest Hg; try contradiction.
    destruct xs as [|[s| | | | |] [|[k| | | | |] [|? ?]]]; try contradiction. cbn [has_ty] in H. destruct H as [Hs Hk].
    cbn [tree_of read_val ser mcont flat_map]. unfold cnt. cbn [length]. change (N.of_nat 2) with 2.
    unfold read_time. rewrite <- !app_assoc. rewrite run_bind.
    unfold read_array_start. rewrite (read_xstart_def MA W0 2) by (cbn; lia).
    replace (2 =? 0) with false by reflexivity. rewrite run_bind, read_uint_item by auto.
    replace (2 =? 1) with false by reflexivity. cbn [app]. rewrite run_bind, read_uint_item by auto.
    reflexivity.
  - (* TArr *) intros e IH [n|z|b|bs|xs|fs] Hd H g rest Hg; try contradiction. cbn [has_ty] in H. destruct H as [Hlen H].
    apply all_Forall in H. cbn [desc_ok] in Hd.
    cbn [tree_of read_val ser mcont] in *. unfold cnt in *. rewrite map_length in *.
    unfold read_arr. rewrite <- app_assoc, run_bind. unfold read_array_start.
    rewrite read_xstart_def by (apply pw_fits; auto). cbn [fst snd].
    rewrite app_length in Hg.
    rewrite run_bind. rewrite <- (map_length (tree_of e) xs) at 1.
    rewrite (arr_loop_def (read_val g e) (map (tree_of e) xs) xs).
    + reflexivity.
    + apply Forall2_map_reads. rewrite Forall_forall in *. intros x Hx rest'. apply IH; auto.
      pose proof (in_flat_le (tree_of e x) (map (tree_of e) xs) (in_map _ _ _ Hx)). lia.
    + pose proof (length_le_flat (map (tree_of e) xs)). lia.
  - (* TIdx *) intros [n|z|b|bs|xs|fs] _ H g rest Hg; try contradiction. cbn [has_ty] in H. destruct H as [Hlen H].
    apply all_Forall in H.
    cbn [tree_of read_val ser mcont] in *. unfold cnt in *. rewrite map_length in *.
    unfold read_idx. rewrite <- app_assoc, run_bind. unfold read_array_start.
    rewrite read_xstart_def by (apply pw_fits; auto). cbn [fst snd run].
    rewrite app_length in Hg. set (f := fun x => match x with VN n => uint_item n | _ => ISeven W0 0 end) in *.
    rewrite run_bind. rewrite <- (map_length f xs) at 1.
    rewrite (arr_loop_def _ (map f xs) xs).
    + reflexivity.
    + apply Forall2_map_reads. rewrite Forall_forall in *. intros x Hx rest'. specialize (H x Hx).
      destruct x as [n| | | | |]; try contradiction. unfold f. rewrite run_bind, read_uint_item by (unfold two64; cbn in H; lia).
      cbn [run]. rewrite N.mod_small by exact H. reflexivity.
    + pose proof (length_le_flat (map f xs)). lia.
  - (* TMap *) intros sk accs fs IH [n|z|b|bs|xs|vs] Hd H g rest Hg; try contradiction. cbn [has_ty] in H.
    cbn [desc_ok] in Hd. apply andb_true_iff in Hd. destruct Hd as [Hd Hfo]. apply andb_true_iff in Hd. destruct Hd as [Hnd Hfl].
    cbn [tree_of read_val ser mcont] in *. unfold cnt in *. rewrite tree_fields_length in *.
    replace (2 * count_present fs vs / 2) with (count_present fs vs) in * by (rewrite N.mul_comm, N.div_mul; lia).
    pose proof (count_le_flen fs vs) as Hc.
    rewrite <- app_assoc, run_bind. unfold read_map_start.
    rewrite read_xstart_def by (apply pw_fits; unfold two64; lia). cbn [fst snd].
    rewrite app_length in Hg.
    rewrite run_bind, <- (entries_length fs vs 0), <- (entries_ser fs vs 0).
    rewrite map_loop_def.
    + change 0%nat with (@length (option val) []). change (init_rec fs) with ([] ++ init_rec fs).
      rewrite (entries_fold accs sk) by auto. cbn [app].
      destruct (mand_ok_ty sk fs vs H) as [-> ->]. reflexivity.
    + apply (IH sk vs Hfo H g _ 0%nat).
      * apply find_field_lookup; auto. apply nodupb_NoDup; auto.
      * lia.
    + pose proof (length_entries_le (entries_of 0 fs vs)). rewrite entries_ser in *. lia.
  - (* FNil *) intros sk vs _ H g f i _ _. destruct vs; [constructor|contradiction].
  - (* FCons *) intros k p t IHt r IHr sk vs Hd H g f i Hl Hg.
    destruct vs as [|v vs]; [contradiction|]. cbn [fields_ty] in H. destruct H as (Hk & Hv & Hr).
    cbn [fields_ok] in Hd. apply andb_true_iff in Hd. destruct Hd as [Hdt Hdr].
    cbn [lookup_ok] in Hl. destruct Hl as [Hf Hl].
    cbn [entries_of tree_fields] in *. rewrite flat_map_app, app_length in Hg.
    apply Forall_app. split.
    + destruct v as [x|]; [|constructor]. destruct (present p (Some x)) eqn:Hp; [|constructor].
      constructor; [|constructor]. unfold entry_ok. cbn [e_kx e_vx e_key e_upd]. split.
      * intros rest. apply (read_key_item sk); auto.
      * rewrite Hf. split; [reflexivity|]. intros rest. apply IHt; auto.
        -- destruct p; try tauto. destruct x; try contradiction. exact Hv.
        -- cbn [flat_map] in Hg. rewrite !app_length in Hg. lia.
    + apply (IHr sk); auto. lia.
Qed.

(* (A2) the canonical tree is a well-formed item; a map lists key/value pairs *)
Lemma int_item_wf z : (- Z.of_N two63 <= z < Z.of_N two63)%Z -> wf (int_item z).
Proof. intros H. unfold int_item. destruct (Z.ltb_spec z 0); cbn [wf]; apply pw_fits; unfold two63, two64 in *; lia. Qed.

Lemma wfl_app xs ys : wfl xs -> wfl ys -> wfl (xs ++ ys).
Proof. induction xs as [|x xs IH]; cbn; intros; tauto. Qed.
Lemma wfl_map {A} (f : A -> item) l : Forall (fun a => wf (f a)) l -> wfl (map f l).
Proof. induction 1; cbn; auto. Qed.
Lemma even_app {A} (xs ys : list A) : Nat.even (length xs) = true -> Nat.even (length ys) = true -> Nat.even (length (xs ++ ys)) = true.
Proof. intros H1 H2. rewrite app_length. rewrite Nat.even_add, H1, H2. reflexivity. Qed.

Lemma tree_wf :
  (forall t v, desc_ok t = true -> has_ty t v -> wf (tree_of t v)) /\
  (forall fs sk vs, fields_ok fs = true -> fields_ty sk fs vs ->
      wfl (tree_fields fs vs) /\ Nat.even (length (tree_fields fs vs)) = true).
Proof.
  apply ty_fields_ind.
  - intros bits [n|z|b|bs|xs|fs] _ H; try contradiction. cbn [has_ty] in H. destruct H as [Hn Hb].
    cbn [tree_of uint_item wf]. unfold uint_item. cbn [wf]. apply pw_fits.
    unfold two64. destruct Hb as [ -> | [ -> | [ -> | -> ] ] ]; cbn in Hn; lia.
  - intros [n|z|b|bs|xs|fs] _ H; try contradiction. apply int_item_wf. exact H.
  - intros [n|z|b|bs|xs|fs] _ H; try contradiction. cbn. destruct b; lia.
  - intros [n|z|b|bs|xs|fs] _ H; try contradiction. cbn [tree_of wf]. apply pw_fits. apply H.
  - intros [n|z|b|bs|xs|fs] _ H; try contradiction. cbn [tree_of wf]. apply pw_fits. apply H.
  - intros [n|z|b|bs|xs|fs] _ H; try contradiction.
    destruct xs as [|[s| | | | |] [|[k| | | | |] [|? ?]]]; try contradiction. cbn [has_ty] in H. destruct H as [Hs Hk].
    cbn [tree_of wf]. unfold cnt. cbn [length]. repeat split; try discriminate; try (cbn; lia); unfold uint_item; cbn [wf]; apply pw_fits; auto.
  - intros e IH [n|z|b|bs|xs|fs] Hd H; try contradiction. cbn [has_ty] in H. destruct H as [Hlen H]. apply all_Forall in H.
    cbn [tree_of wf]. unfold cnt. rewrite map_length. split; [apply pw_fits; auto|]. split; [discriminate|].
    apply wfl_map. eapply Forall_impl; [|exact H]. intros x Hx. apply IH; auto.
  - intros [n|z|b|bs|xs|fs] Hd H; try contradiction. cbn [has_ty] in H. destruct H as [Hlen H]. apply all_Forall in H.
    cbn [tree_of wf]. unfold cnt. rewrite map_length. split; [apply pw_fits; auto|]. split; [discriminate|].
    apply wfl_map. eapply Forall_impl; [|exact H]. intros x Hx. destruct x; try contradiction.
    unfold uint_item. cbn [wf]. apply pw_fits. unfold two64. cbn in Hx. lia.
  - intros sk accs fs IH [n|z|b|bs|xs|vs] Hd H; try contradiction. cbn [has_ty] in H.
    cbn [desc_ok] in Hd. apply andb_true_iff in Hd. destruct Hd as [Hd Hfo]. apply andb_true_iff in Hd. destruct Hd as [Hnd Hfl].
    destruct (IH sk vs Hfo H) as [Hw He].
    cbn [tree_of wf]. unfold cnt. rewrite tree_fields_length.
    replace (2 * count_present fs vs / 2) with (count_present fs vs) by (rewrite N.mul_comm, N.div_mul; lia).
    pose proof (count_le_flen fs vs). split; [apply pw_fits; unfold two64; lia|]. split; auto.
  - intros sk vs _ H. destruct vs; [split; reflexivity|contradiction].
  - intros k p t IHt r IHr sk vs Hd H. destruct vs as [|v vs]; [contradiction|].
    cbn [fields_ty] in H. destruct H as (Hk & Hv & Hr).
    cbn [fields_ok] in Hd. apply andb_true_iff in Hd. destruct Hd as [Hdt Hdr].
    destruct (IHr sk vs Hdr Hr) as [Hw He]. cbn [tree_fields].
    destruct v as [x|]; [|split; auto]. destruct (present p (Some x)) eqn:Hp; [|split; auto].
    split.
    + apply wfl_app; auto. cbn [wfl]. split; [|split; auto].
      * apply int_item_wf. unfold two63. destruct sk; lia.
      * apply IHt; auto. destruct p; try tauto. destruct x; try contradiction. exact Hv.
    + apply even_app; auto.
Qed.

(* every operation a structure's write issues is within its operand type's range *)
Lemma write_in_range :
  (forall t v, desc_ok t = true -> has_ty t v -> Forall in_range (write_val t v)) /\
  (forall fs sk vs, fields_ok fs = true -> fields_ty sk fs vs -> Forall in_range (write_fields sk fs vs)).
Proof.
  apply ty_fields_ind.
  - intros bits [n|z|b|bs|xs|fs] _ H; try contradiction. cbn [has_ty] in H. destruct H as [Hn Hb].
    cbn [write_val]. constructor; [|constructor]. unfold op_uint.
    destruct Hb as [ -> | [ -> | [ -> | -> ] ] ]; cbn in *; unfold two64; lia.
  - intros [n|z|b|bs|xs|fs] _ H; try contradiction. cbn [has_ty] in H. constructor; [|constructor]. cbn. unfold two63 in H. lia.
  - intros [n|z|b|bs|xs|fs] _ H; try contradiction. constructor; [|constructor]. exact I.
  - intros [n|z|b|bs|xs|fs] _ H; try contradiction. constructor; [|constructor]. exact H.
  - intros [n|z|b|bs|xs|fs] _ H; try contradiction. constructor; [|constructor]. exact H.
  - intros [n|z|b|bs|xs|fs] _ H; try contradiction.
    destruct xs as [|[s| | | | |] [|[k| | | | |] [|? ?]]]; try contradiction. cbn [has_ty] in H. destruct H as [Hs Hk].
    cbn [write_val]. repeat constructor; cbn; unfold two64 in *; lia.
  - intros e IH [n|z|b|bs|xs|fs] Hd H; try contradiction. cbn [has_ty] in H. destruct H as [Hlen H]. apply all_Forall in H.
    cbn [write_val]. constructor; [exact Hlen|]. clear Hlen. induction H as [|x xs Hx _ IHl]; cbn [flat_map]; [constructor|].
    apply Forall_app. split; auto.
  - intros [n|z|b|bs|xs|fs] _ H; try contradiction. cbn [has_ty] in H. destruct H as [Hlen H]. apply all_Forall in H.
    cbn [write_val]. constructor; [exact Hlen|]. clear Hlen. induction H as [|x xs Hx _ IHl]; cbn [flat_map]; [constructor|].
    apply Forall_app. split; auto. destruct x; try contradiction. constructor; [|constructor]. cbn in *. lia.
  - intros sk accs fs IH [n|z|b|bs|xs|vs] Hd H; try contradiction. cbn [has_ty] in H.
    cbn [desc_ok] in Hd. apply andb_true_iff in Hd. destruct Hd as [Hd Hfo]. apply andb_true_iff in Hd. destruct Hd as [Hnd Hfl].
    cbn [write_val]. pose proof (count_le_flen fs vs). constructor; [cbn; unfold two64; lia|]. apply IH; auto.
  - intros sk vs _ H. destruct vs; constructor.
  - intros k p t IHt r IHr sk vs Hd H. destruct vs as [|v vs]; [contradiction|].
    cbn [fields_ty] in H. destruct H as (Hk & Hv & Hr). cbn [write_fields] in *.
    cbn [fields_ok] in Hd. apply andb_true_iff in Hd. destruct Hd as [Hdt Hdr].
    apply Forall_app. split.
    + destruct v as [x|]; [|constructor]. destruct (present p (Some x)) eqn:Hp; [|constructor].
      constructor.
      * unfold op_key. destruct sk; cbn; lia.
      * apply IHt; auto. destruct p; try tauto. destruct x; try contradiction. exact Hv.
    + apply IHr; auto.
Qed.

(* a structure written through a fresh encoder: the bytes are the canonical tree's, the return value their number *)
Theorem write_struct_spec t v : desc_ok t = true -> has_ty t v ->
  write_struct t v = (ser (tree_of t v), N.of_nat (length (ser (tree_of t v)))).
Proof.
  intros Hd Ht. unfold write_struct.
  pose proof (eruns_spec (write_val t v) enc_init inv_init (proj1 write_in_range t v Hd Ht)) as H.
  destruct (eruns enc_init (write_val t v)) as [e rs]. destruct H as (Hs & Hr & Hi).
  rewrite stream_flush, Hs. cbn [stream enc_init chunks buf rev concat app].
  fold (bytes_of (write_val t v)). rewrite (proj1 write_is_tree t v Ht). f_equal.
  rewrite Hr. fold (bytes_of (write_val t v)) in Hs.
  assert (Hsum : forall ops acc, fold_left N.add (map (fun o => N.of_nat (length (spec_enc o))) ops) acc
                                 = acc + N.of_nat (length (flat_map spec_enc ops))).
  { induction ops as [|o ops IH]; intros acc; cbn [map fold_left flat_map length]; [lia|].
    rewrite IH, app_length. lia. }
  rewrite Hsum. fold (bytes_of (write_val t v)). rewrite (proj1 write_is_tree t v Ht). lia.
Qed.

(* ---------- no allocation request is sized by a length field: every reservation of every reader is capped by the window ---------- *)
Lemma rb_read_unsigned : rbounded read_unsigned.
Proof. unfold read_unsigned. apply rbounded_bind; [apply rb_read_type|]. intros [m ai]. cbn [fst snd]. destruct m; try apply rb_throw. destruct (28 <=? ai); [constructor|apply rb_read_int]. Qed.
Lemma rb_read_negative : rbounded read_negative.
Proof.
  unfold read_negative. apply rbounded_bind; [apply rb_read_type|]. intros [m ai]. cbn [fst snd]. destruct m; try apply rb_throw.
  destruct (28 <=? ai); [constructor|]. apply rbounded_bind; [apply rb_read_int|]. intros v. constructor.
Qed.
Lemma rb_read_integer : rbounded read_integer.
Proof.
  unfold read_integer. apply rbounded_bind; [apply rb_peek_type|]. intros [m|]; [|constructor]. destruct m; try apply rb_throw.
  - apply rbounded_bind; [apply rb_read_unsigned|]. intros v. constructor.
  - apply rb_read_negative.
Qed.
Lemma rb_read_bool : rbounded read_bool.
Proof.
  unfold read_bool. apply rbounded_bind; [apply rb_read_type|]. intros [m ai]. cbn [fst snd]. destruct m; try apply rb_throw.
  - destruct (28 <=? ai); [constructor|]. apply rbounded_bind; [apply rb_read_int|]. intros v. constructor.
  - destruct ((ai =? 20) || (ai =? 21)); constructor.
Qed.
Lemma rb_read_xstart m : rbounded (read_xstart m).
Proof.
  unfold read_xstart. apply rbounded_bind; [apply rb_read_type|]. intros [m' ai]. cbn [fst snd].
  destruct (negb (major_eqb m' m)); [constructor|]. destruct (bad_ai ai); [constructor|]. destruct (ai =? 31); [constructor|].
  apply rbounded_bind; [apply rb_read_int|]. intros n. constructor.
Qed.
Lemma rb_read_time : rbounded read_time.
Proof.
  unfold read_time. apply rbounded_bind; [apply rb_read_xstart|]. intros [n indef]. destruct indef.
  - apply rbounded_bind; [apply rb_peek_type|]. intros [m|]; [|apply rbounded_bind; [apply rb_read_break|]; intros; constructor].
    apply rbounded_bind; [apply rb_read_unsigned|]. intros s.
    apply rbounded_bind; [apply rb_peek_type|]. intros [m2|]; [|apply rbounded_bind; [apply rb_read_break|]; intros; constructor].
    apply rbounded_bind; [apply rb_read_unsigned|]. intros k.
    apply rbounded_bind; [apply rb_peek_type|]. intros [m3|]; [constructor|]. apply rbounded_bind; [apply rb_read_break|]. intros; constructor.
  - destruct (n =? 0); [constructor|]. apply rbounded_bind; [apply rb_read_unsigned|]. intros s.
    destruct (n =? 1); [constructor|]. apply rbounded_bind; [apply rb_read_unsigned|]. intros k. destruct (n =? 2); constructor.
Qed.
Lemma rb_arr_loop rd : rbounded rd -> forall g n indef racc, rbounded (arr_loop rd g n indef racc).
Proof.
  intros Hr. induction g as [|g IH]; intros n indef racc; cbn [arr_loop]; destruct ((n =? 0) && negb indef); try constructor.
  destruct indef.
  - apply rbounded_bind; [apply rb_peek_type|]. intros [m|].
    + apply rbounded_bind; [exact Hr|]. intros v. apply IH.
    + apply rbounded_bind; [apply rb_read_break|]. intros; constructor.
  - apply rbounded_bind; [exact Hr|]. intros v. apply IH.
Qed.
Lemma rb_map_loop accs rdk sk : (forall key i rd, rdk key = Some (i, rd) -> rbounded rd) -> rbounded sk ->
  forall g n indef rec, rbounded (map_loop accs rdk sk g n indef rec).
Proof.
  intros Hk Hs. induction g as [|g IH]; intros n indef rec; cbn [map_loop]; destruct ((n =? 0) && negb indef); try constructor.
  assert (Hbody : rbounded (key <- read_integer ;; match rdk key with
                     | Some (i, rd) => v <- rd ;; map_loop accs rdk sk g (n - 1) indef (set_nth i (Some (upd_slot accs i (nth i rec None) v)) rec)
                     | None => sk ;;; map_loop accs rdk sk g (n - 1) indef rec end)).
  { apply rbounded_bind; [apply rb_read_integer|]. intros key. destruct (rdk key) as [[i rd]|] eqn:E.
    - apply rbounded_bind; [eapply Hk; eauto|]. intros v. apply IH.
    - apply rbounded_bind; [exact Hs|]. intros _. apply IH. }
  destruct indef; [|exact Hbody].
  apply rbounded_bind; [apply rb_peek_type|]. intros [m|]; [exact Hbody|]. apply rbounded_bind; [apply rb_read_break|]. intros; constructor.
Qed.

Lemma rb_read_val g :
  (forall t, rbounded (read_val g t)) /\
  (forall fs i key j rd, find_field g fs i key = Some (j, rd) -> rbounded rd).
Proof.
  apply ty_fields_ind.
  - intros bits. cbn [read_val]. apply rbounded_bind; [apply rb_read_unsigned|]. intros; constructor.
  - cbn [read_val]. apply rbounded_bind; [apply rb_read_integer|]. intros; constructor.
  - cbn [read_val]. apply rbounded_bind; [apply rb_read_bool|]. intros; constructor.
  - cbn [read_val]. apply rbounded_bind; [apply rb_read_xstring|]. intros; constructor.
  - cbn [read_val]. apply rbounded_bind; [apply rb_read_xstring|]. intros; constructor.
  - cbn [read_val]. apply rb_read_time.
  - intros e IH. cbn [read_val]. unfold read_arr. apply rbounded_bind; [apply rb_read_xstart|]. intros st.
    apply rbounded_bind; [apply rb_arr_loop; exact IH|]. intros; constructor.
  - cbn [read_val]. unfold read_idx. apply rbounded_bind; [apply rb_read_xstart|]. intros st. constructor; [apply reserve_req_le|].
    apply rbounded_bind; [apply rb_arr_loop|intros; constructor]. apply rbounded_bind; [apply rb_read_unsigned|]. intros; constructor.
  - intros sk accs fs IH. cbn [read_val]. apply rbounded_bind; [apply rb_read_xstart|]. intros st.
    apply rbounded_bind.
    + apply rb_map_loop; [|apply rb_skip]. intros key i rd H. eapply IH. exact H.
    + intros rec. destruct (mand_ok fs rec); constructor.
  - intros i key j rd H. cbn in H. discriminate.
  - intros k p t IHt r IHr i key j rd H. cbn [find_field] in H. destruct (key =? k)%Z.
    + inversion H; subst. apply IHt.
    + eapply IHr. exact H.
Qed.
