(* Properties_C12.v — C12: buffering conserves records and flushes blocks exactly at the configured size.
   [xstep] is one call of the exporter API (buffer_qr / buffer_aec / buffer_mm / write_block / rotate_output /
   add_block_parameters / set_active_block_parameters); [x_done] is the ghost list of blocks written so far.
   Only statements live here. *)
Require Import Base Cbor Schema Block BlockProofs Exporter ExporterProofs E2ESpec BlockRead FileProofs SizeProofs.
Local Open Scope N_scope.

(* a buffer call writes a block precisely when the add made the block full, i.e. when one of the three arrays has
   reached the block parameters' maximum (a maximum of 0 is reached at once, acting like 1) *)
Theorem C12_flush_rule : forall add x,
  buffer add x = (let '(b', full) := add (x_blk x) in if full then write_block (with_blk x b') else (with_blk x b', 0))
  /\ forall b, blk_full b = true <->
       (bp_max (b_bp b) <= N.of_nat (length (b_qrs b)) \/ bp_max (b_bp b) <= N.of_nat (length (b_aecs b))
        \/ bp_max (b_bp b) <= N.of_nat (length (b_mms b))).
Proof.
  intros add x. split; [reflexivity|]. intros b. unfold blk_full. rewrite !orb_true_iff, !N.leb_le. tauto.
Qed.
Print Assumptions C12_flush_rule.

(* every storable record ends up exactly once, in submission order, in a written block or in the block still being
   buffered: each call appends the stored form of its record to that sequence and no call changes anything else *)
Theorem C12_conservation : forall x o,
  all_qrs (fst (xstep x o)) = all_qrs x ++ match o with XQr gr _ => stored_qr x gr | _ => [] end /\
  all_mms (fst (xstep x o)) = all_mms x ++ match o with XMm gm _ => stored_mm x gm | _ => [] end /\
  forall k, aec_total (fst (xstep x o)) k = aec_total x k +
    match o with
    | XAec ga _ => if N.testbit (h_other (b_bp (x_blk x))) 1 then (if val_eqb (aec_key_of x ga) k then 1 else 0) else 0
    | _ => 0
    end.
Proof. intros x o. split; [apply xstep_conserves_qr|]. split; [apply xstep_conserves_mm|]. intros k. apply xstep_conserves_aec. Qed.
Print Assumptions C12_conservation.

(* over every history: every emitted block is non-empty and none of its arrays exceeds max(1, max_block_items);
   between calls the buffered block is empty or has every array below the maximum *)
Theorem C12_block_bound : forall pre ops,
  let x := xrun (x_new pre) ops in
  Forall (fun b => bounded b /\ item_count b <> 0) (x_done x) /\ (item_count (x_blk x) = 0 \/ blk_full (x_blk x) = false).
Proof.
  intros pre ops. pose proof (xrun_inv ops (x_new pre) (x_new_inv pre)) as [H1 H2]. split; [exact H2|exact H1].
Qed.
Print Assumptions C12_block_bound.

(* a written block leaves nothing behind: after the flush the buffered block is empty under the active parameters *)
Theorem C12_flush_clears : forall x, let b := x_blk (fst (write_block x)) in b_qrs b = [] /\ b_aecs b = [] /\ b_mms b = [].
Proof. intros x. pose proof (write_block_fields x) as (_ & _ & H1 & H2 & H3 & _). repeat split; assumption. Qed.
Print Assumptions C12_flush_clears.

(* a buffer_* or write_block call returns a non-zero byte count exactly when it wrote a block (reachable states of admissible
   in-range histories: [framed]; the count is then the size of that block, plus the file header for the first block of an output) *)
Theorem C12_nonzero_iff_written : forall x o hn cur closed, framed x hn cur closed -> adm1 x hn o -> typed_x (fst (xstep x o)) ->
  match o with
  | XQr _ _ | XAec _ _ | XMm _ _ | XWb => snd (xstep x o) <> 0 <-> x_done (fst (xstep x o)) <> x_done x
  | _ => True
  end.
Proof. exact ret_nonzero_iff_written. Qed.
Print Assumptions C12_nonzero_iff_written.

Example C12_nonvacuous :
  let bp := mkBp 1000 2 262143 131071 3 3 in
  let b0 := blk_new bp 0 in
  let gr := [Some (VL [VN 5; VN 1]); None; Some (VN 53)] in
  let '(b1, f1) := add_qr gr None b0 in let '(b2, f2) := add_qr gr None b1 in
  f1 = false /\ f2 = true /\ length (b_qrs b2) = 2%nat /\ resting b0 /\ bounded b2.
Proof. vm_compute. repeat split; try discriminate; auto. Qed.
