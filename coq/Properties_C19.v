(* Properties_C19.v — C19: blocks have value semantics: a copy is complete and independent of its source.
   [HeapTable] models a block table at the level where the question has content: items in heap cells, index keys that
   are REFERENCES to cells, freed cells, and the distinguished outcome UAF for a dereference of freed memory.
   Only statements live here. *)
Require Import Base Cbor Schema Block BlockProofs HeapTable HeapWorld.
Local Open Scope N_scope.

(* under the ownership invariant (every index key refers to one of the table's own live cells) a lookup never touches
   freed memory and returns exactly what the value-level table returns *)
Theorem C19_find_refines : forall h t v, own_refs h t ->
  hfind h t v = match tfind (values h t) v with Some j => Found j | None => NotFound end.
Proof. exact hfind_refines. Qed.
Print Assumptions C19_find_refines.

(* de-duplicating additions keep the invariant and behave exactly like additions to a table of plain values *)
Theorem C19_own_refs : forall h t v, own_refs h t ->
  let '(h', t', r) := hadd h t v in
  own_refs h' t' /\ values h' t' = fst (tadd (values h t) v) /\ r = Found (snd (tadd (values h t) v)).
Proof. exact hadd_refines. Qed.
Print Assumptions C19_own_refs.

(* copy-construction / assignment: the copy holds the same content in storage of its own (disjoint from the source's),
   satisfies the invariant, and the source is unchanged *)
Theorem C19_value_copy : forall h t, own_refs h t ->
  let '(h', t') := copy_fixed h t in
  own_refs h' t' /\ values h' t' = values h t /\ own_refs h' t /\ values h' t = values h t /\
  (forall a, In a (cells t') -> ~ In a (cells t)).
Proof. exact copy_fixed_spec. Qed.
Print Assumptions C19_value_copy.

(* whatever happens to the source afterwards - here: it is destroyed - the copy keeps its content and its invariant,
   so lookups and additions on it keep giving the results of a freshly built table with that content *)
Theorem C19_destroy_other : forall h t t2, own_refs h t -> (forall a, In a (cells t) -> ~ In a (cells t2)) ->
  own_refs (hdestroy h t2) t /\ values (hdestroy h t2) t = values h t.
Proof. exact destroy_other. Qed.
Print Assumptions C19_destroy_other.

Theorem C19_copy_independent : forall h t v, own_refs h t ->
  let '(h1, t1) := copy_fixed h t in
  let h2 := hdestroy h1 t in
  hfind h2 t1 v = match tfind (values h t) v with Some j => Found j | None => NotFound end.
Proof.
  intros h t v Ho. pose proof (copy_fixed_spec h t Ho) as H. destruct (copy_fixed h t) as [h1 t1].
  destruct H as (Ho1 & Hv1 & _ & _ & Hdisj). cbn zeta.
  destruct (destroy_other h1 t1 t Ho1 Hdisj) as [Ho2 Hv2].
  rewrite (hfind_refines _ _ v Ho2), Hv2, Hv1. reflexivity.
Qed.
Print Assumptions C19_copy_independent.

(* ANY operation sequence: any number of tables in one heap - created, filled by de-duplicating adds, looked up, copied (the index rebuilt over
   the copied items) and destroyed in any order and interleaving.  From any state in which every table owns live cells and no two tables
   share a cell, the run keeps that invariant, and every result and every table's content is that of the same run over INDEPENDENT lists of
   values (a copy = a copy of the list, a destruction = forgetting the list): a copy is complete, whatever happens to the source afterwards -
   more adds, destruction - does not show in the copy and vice versa *)
Theorem C19_any_history : forall ops w, winv w ->
  winv (fst (wrun w ops)) /\ abs (fst (wrun w ops)) = fst (srun (abs w) ops) /\ snd (wrun w ops) = snd (srun (abs w) ops).
Proof. exact wrun_refines. Qed.
Print Assumptions C19_any_history.
(* ... from nothing, and no lookup or add ever dereferences freed memory *)
Theorem C19_histories_from_nothing : forall ops,
  snd (wrun w0 ops) = snd (srun [] ops) /\ abs (fst (wrun w0 ops)) = fst (srun [] ops) /\ ~ In (Some UAF) (snd (wrun w0 ops)).
Proof. exact world_refines. Qed.
Print Assumptions C19_histories_from_nothing.
Example C19_history_nonvacuous :
  (* table 0 gets "w"; copied to table 1; the source is destroyed; the copy still finds "w" at index 0, gets "x" at index 1; a copy of the copy holds both *)
  let ops := [WNew; WAdd 0 (VS [119]); WCopy 0; WDestroy 0; WFind 1 (VS [119]); WAdd 1 (VS [120]); WCopy 1; WFind 2 (VS [120]); WFind 0 (VS [119])] in
  snd (wrun w0 ops) = [None; Some (Found 0); None; None; Some (Found 0); Some (Found 1); None; Some (Found 1); None] /\
  abs (fst (wrun w0 ops)) = [None; Some [VS [119]; VS [120]]; Some [VS [119]; VS [120]]].
Proof. vm_compute. split; reflexivity. Qed.

(* what the theorems exclude: with the implicit member-wise copy (index keys still referring to the source's items)
   the same history - copy, destroy the source, look up an existing value - dereferences freed memory *)
Example C19_shallow_copy_refuted :
  let '(h0, t0, _) := hadd [] (mkHT [] []) (VS [119; 111; 114; 108; 100]) in
  let '(h1, t1) := copy_shallow h0 t0 in
  hfind (hdestroy h1 t0) t1 (VS [119; 111; 114; 108; 100]) = UAF.
Proof. vm_compute. reflexivity. Qed.

Example C19_nonvacuous :
  let '(h0, t0, _) := hadd [] (mkHT [] []) (VS [119]) in
  let '(h1, t1) := copy_fixed h0 t0 in
  own_refs h0 t0 /\ hfind (hdestroy h1 t0) t1 (VS [119]) = Found 0 /\ snd (hadd (hdestroy h1 t0) t1 (VS [120])) = Found 1.
Proof. split; [split; [reflexivity|intros a [<-|[]]; discriminate]|]. split; vm_compute; reflexivity. Qed.
