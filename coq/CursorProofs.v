(* CursorProofs.v — the iterator of a CdnsBlockRead object never dangles, whatever is read into the object (successfully or not), assigned
   to it or taken out of it, provided the statement lists satisfy Cursor.steps_ok (an obligation over the regenerated Gen_cursors.v). *)
Require Import String List Arith Bool Lia. Import ListNotations.
Require Import Cursor.

Definition Safe (o : obj) : Prop := c_gen o = gen o /\ c_aec o <= n_aec o.

Lemma aec_defined_safe o : aec_defined o = true <-> Safe o.
Proof.
  unfold aec_defined, Safe. rewrite andb_true_iff, Nat.eqb_eq, Nat.leb_le. tauto.
Qed.

(* the invariant a statement list maintains while it runs: clean -> Safe *)
Lemma exec_safe l : forall dirty es o, steps_ok dirty l = true -> (dirty = false -> Safe o) -> Safe (fst (exec l es o)).
Proof.
  induction l as [|s r IH]; intros dirty es o Hok Hs.
  - cbn in *. destruct dirty; [discriminate|]. auto.
  - destruct s; cbn [exec steps_ok] in *.
    + (* Work *) apply andb_true_iff in Hok as [Hd Hok]. destruct dirty; [discriminate|].
      destruct (Hs eq_refl) as [H1 H2].
      destruct es as [|e es'].
      * eapply IH; [exact Hok|exact Hs].
      * destruct (e_throws e).
        -- cbn. split; cbn; [assumption|lia].
        -- eapply IH; [exact Hok|]. intros _. split; cbn; [assumption|lia].
    + (* Local *) eapply IH; [exact Hok|exact Hs].
    + (* Destroy *) eapply IH; [exact Hok|discriminate].
    + (* RwQr *) eapply IH; [exact Hok|]. intros Hd. destruct (Hs Hd) as [H1 H2]. split; cbn; assumption.
    + (* RwAec *) eapply IH; [exact Hok|]. intros _. split; cbn; [reflexivity|lia].
    + (* RwMm *) eapply IH; [exact Hok|]. intros Hd. destruct (Hs Hd) as [H1 H2]. split; cbn; assumption.
Qed.

Lemma next_safe o : Safe o -> Safe (next_qr o) /\ Safe (next_mm o) /\ Safe (next_aec o).
Proof.
  intros [H1 H2]. unfold next_qr, next_mm, next_aec, Safe.
  destruct (c_qr o <? n_qr o), (c_mm o <? n_mm o), (c_aec o <? n_aec o) eqn:Ha; cbn; repeat split; try assumption;
    apply Nat.ltb_lt in Ha; lia.
Qed.

Theorem cursor_never_dangles rd asg : steps_ok false rd = true -> steps_ok false asg = true ->
  forall ps, Safe (orun rd asg ps).
Proof.
  intros Hr Ha ps. unfold orun.
  assert (H0 : Safe obj0) by (split; cbn; lia).
  revert H0. generalize obj0. induction ps as [|p ps IH]; intros o Ho; cbn [fold_left]; [exact Ho|].
  apply IH. destruct p; cbn [ostep].
  - eapply exec_safe; eauto.
  - eapply exec_safe; eauto.
  - apply next_safe; assumption.
  - apply next_safe; assumption.
  - apply next_safe; assumption.
Qed.


(* a run that completes leaves the cursors at the beginning of the containers as they are now *)
Definition at_start (q a m : bool) (o : obj) : Prop :=
  (q = true -> c_qr o = 0) /\ (a = true -> c_aec o = 0 /\ c_gen o = gen o) /\ (m = true -> c_mm o = 0).
Lemma exec_rewound l : forall q a m es o o', rewound_after q a m l = true -> exec l es o = (o', true) -> at_start q a m o -> at_start true true true o'.
Proof.
  induction l as [|s r IH]; intros q a m es o o' Hrw Hex (Hq & Ha & Hm).
  - cbn in *. inversion Hex; subst. apply andb_true_iff in Hrw as [Hrw Hm']. apply andb_true_iff in Hrw as [Hq' Ha'].
    destruct (Ha Ha') as [Ha1 Ha2]. unfold at_start. split; [intros _; auto|]. split; [intros _; split; assumption|intros _; auto].
  - destruct s; cbn [exec rewound_after] in *.
    + destruct es as [|e es'].
      * eapply IH; [exact Hrw|exact Hex|]. repeat split; discriminate.
      * destruct (e_throws e); [discriminate|]. eapply IH; [exact Hrw|exact Hex|]. repeat split; discriminate.
    + eapply IH; [exact Hrw|exact Hex|]. split; [exact Hq|]. split; [exact Ha|exact Hm].
    + eapply IH; [exact Hrw|exact Hex|]. split; [exact Hq|]. split; [discriminate|exact Hm].
    + eapply IH; [exact Hrw|exact Hex|]. split; [reflexivity|]. split; [exact Ha|exact Hm].
    + eapply IH; [exact Hrw|exact Hex|]. split; [exact Hq|]. split; [intros _; split; reflexivity|exact Hm].
    + eapply IH; [exact Hrw|exact Hex|]. split; [exact Hq|]. split; [exact Ha|reflexivity].
Qed.

Theorem completed_run_rewinds l es o o' : rewound_after false false false l = true -> exec l es o = (o', true) ->
  c_qr o' = 0 /\ c_aec o' = 0 /\ c_gen o' = gen o' /\ c_mm o' = 0.
Proof.
  intros Hrw Hex. destruct (exec_rewound l false false false es o o' Hrw Hex) as (Hq & Ha & Hm).
  - repeat split; discriminate.
  - destruct (Ha eq_refl). repeat split; auto.
Qed.
