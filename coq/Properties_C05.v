(* Properties_C05.v — C05: end of input is always detected; a truncated input yields only complete values.
   Only statements live here. *)
Require Import Base Cbor DecoderModel DecoderProofs Schema Block Exporter E2ESpec BlockRead FileProofs TruncProofs Exporter HistoryCuts.
Local Open Scope N_scope.

(* The physical decoder (window of any size B > 0 refilled from the stream, any window fill, any stream state
   satisfying the invariant: eofbit implies nothing left) computes exactly what the logical byte list says:
   same result, same logical remainder, invariant kept.  So no value is ever taken from stale window contents. *)
Theorem C05_refine : forall (B : N), 0 < B -> forall (A : Type) (p : prog A) (s : phys), phys_inv B s ->
  let '(res, s') := run_phys B p s in
  run p (logical s) = (res, logical s') /\ phys_inv B s'.
Proof. intros B HB A p s Hi. exact (phys_refines B HB p s Hi). Qed.
Print Assumptions C05_refine.

(* every freshly constructed decoder satisfies the invariant: any input (empty, multiples of B, unreadable = []) *)
Theorem C05_init : forall B input, phys_inv B (phys_init input).
Proof. intros B input. split; cbn; [discriminate|lia]. Qed.
Print Assumptions C05_init.

(* the public read operations *)
Definition public_ops (g : nat) : list (prog unit) :=
  [ peek_type ;;; Ret tt; read_unsigned ;;; Ret tt; read_negative ;;; Ret tt; read_integer ;;; Ret tt;
    read_bool ;;; Ret tt; read_bytestring g ;;; Ret tt; read_textstring g ;;; Ret tt;
    read_array_start ;;; Ret tt; read_map_start ;;; Ret tt; read_break; skip_item (S g) ].

(* once the bytes are exhausted every operation reports end of input — for the empty input, for inputs whose
   length is a multiple of the window size (window empty, stream empty, eofbit not yet set), for unreadable streams *)
Theorem C05_exhausted : forall B g s, 0 < B -> phys_inv B s -> logical s = [] ->
  Forall (fun p => fst (run_phys B p s) = inr EEnd) (public_ops g).
Proof.
  intros B g s HB Hi Hl.
  assert (H : forall p : prog unit, fst (run p []) = inr EEnd -> fst (run_phys B p s) = inr EEnd).
  { intros p Hp. pose proof (phys_refines B HB p s Hi) as Hr. destruct (run_phys B p s) as [res s'].
    rewrite Hl in Hr. destruct Hr as [Hr _]. rewrite Hr in Hp. exact Hp. }
  unfold public_ops. repeat (constructor; [apply H; reflexivity|]). constructor.
Qed.
Print Assumptions C05_exhausted.

(* truncation: on a prefix [q] of any input [q ++ s] EVERY program of the decoder monad (hence the whole
   reader) either returns exactly what it returns on the full input, having consumed only bytes of [q], or
   reports end of input — never a different value *)
Theorem C05_prefix : forall (A : Type) (p : prog A) q s,
  match run p (q ++ s) with
  | (res, r) => (exists r', r = r' ++ s /\ run p q = (res, r')) \/ fst (run p q) = inr EEnd
  end.
Proof. intros A p q s. exact (run_prefix p q s). Qed.
Print Assumptions C05_prefix.

(* a program never invents input *)
Theorem C05_suffix : forall (A : Type) (p : prog A) inp res r, run p inp = (res, r) -> exists c, inp = c ++ r.
Proof. intros A p. exact (run_suffix p). Qed.
Print Assumptions C05_suffix.

(* FILES.  For every output [file_bytes pre bs] of the exporter (non-empty, within the ranges of the format, blocks satisfying the
   builder's invariants) and EVERY cut point — the file split as q ++ t with t non-empty — the application's read loop (open, then
   read_block until eof or an exception; [read_collect]) run on the prefix q returns exactly the blocks wholly contained in q
   ([whole]: greedy count over the block lengths after the header; none if the header itself is cut), each equal to the block of the
   full file, and then fails with the end-of-input error: no other error, no further block, nothing fabricated. *)
Theorem C05_truncated_file : forall pre bs g q t, typed_pre pre -> bs <> [] -> Forall (readable pre) bs ->
  (length (file_bytes pre bs) <= g)%nat -> file_bytes pre bs = q ++ t -> t <> [] ->
  read_prefix g q =
    (map rb_of (firstn (if (length (hdr_bytes pre) <=? length q)%nat
                        then whole (map (fun b => length (blk_bytes b)) bs) (length q - length (hdr_bytes pre)) else 0%nat) bs),
     inl EEnd).
Proof. exact truncated_file. Qed.
Print Assumptions C05_truncated_file.

(* ... and for the outputs of histories: every output of every admissible in-range exporter history - those closed by rotations and the one
   destruction closes - cut at EVERY point reads as exactly the blocks wholly contained in the prefix, then end of input *)
Theorem C05_truncated_outputs_of_histories : forall pre ops, typed_pre pre -> adm0 pre ops -> typed_x (xrun (x_new pre) ops) ->
  let x := xrun (x_new pre) ops in
  exists (last : val) cur closed,
    x_closed x = map (fun pb => file_bytes (fst pb) (snd pb)) closed /\ destroy x = file_bytes last cur /\
    forall p bs, In (p, bs) ((last, cur) :: closed) -> bs <> [] ->
    forall g q t, (length (file_bytes p bs) <= g)%nat -> file_bytes p bs = q ++ t -> t <> [] ->
      read_prefix g q =
        (map rb_of (firstn (if (length (hdr_bytes p) <=? length q)%nat
                            then whole (map (fun b => length (blk_bytes b)) bs) (length q - length (hdr_bytes p)) else 0%nat) bs),
         inl EEnd).
Proof. exact truncated_outputs_of_histories. Qed.
Print Assumptions C05_truncated_outputs_of_histories.

Example C05_nonvacuous :
  phys_inv 4 (mkPhys [] [] false) /\
  fst (run_phys 4 read_unsigned (snd (run_phys 4 (read_bytestring 9) (phys_init [67; 1; 2; 3])))) = inr EEnd /\
  fst (run_phys 4 (read_bytestring 9) (phys_init [67; 1; 2; 3])) = inl [1; 2; 3].
Proof. split; [split; cbn; [discriminate|lia]|]. split; vm_compute; reflexivity. Qed.
