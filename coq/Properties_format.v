(* Properties_format.v — obligations tying the hand-written constants and descriptors of the model to Gen_format.v, which
   translator/format.py regenerates from /repo's current sources (clang AST) on every run: the map keys of every RFC 8618
   structure and their order of writing, the signedness of the key type, the hint-mask bit that governs each member of a
   generic record, the CBOR major-type codes, the two buffer sizes and the width of a table index.  All by computation. *)
Require Import Base Cbor EncoderModel DecoderModel Schema SchemaProofs Block E2ESpec Gen_format.
Require Import String.
Local Open Scope string_scope.

Fixpoint lookup {A} (k : string) (l : list (string * A)) : option A :=
  match l with [] => None | (k', a) :: r => if String.eqb k k' then Some a else lookup k r end.
Definition enum_vals (e : string) : list Z := match lookup e gen_enums with Some (_, l) => List.map snd l | None => [] end.
Definition enum_type (e : string) : string := match lookup e gen_enums with Some (t, _) => t | None => "" end.
Definition enum_val (e m : string) : Z := match lookup e gen_enums with Some (_, l) => match lookup m l with Some v => v | None => (-999)%Z end | None => (-999)%Z end.
Definition keys_of (t : ty) : list Z := match t with TMap _ _ fs => fkeys fs | _ => [] end.
Definition signed_of (t : ty) : bool := match t with TMap sk _ _ => sk | _ => false end.
Definition zlist_eqb (a b : list Z) : bool := list_eqb Z.eqb a b.

(* every structure: the keys its descriptor writes, in writing order, are the enumerators of its <X>MapIndex, in declaration
   order; the key type is signed exactly for the one int8_t enumeration *)
Definition struct_enums : list (string * ty) :=
  [("FilePreambleMapIndex", FilePreamble); ("BlockParametersMapIndex", BlockParameters); ("StorageParametersMapIndex", StorageParameters);
   ("CollectionParametersMapIndex", CollectionParameters); ("StorageHintsMapIndex", StorageHints); ("BlockMapIndex", Schema.Block);
   ("BlockPreambleMapIndex", BlockPreamble); ("BlockStatisticsMapIndex", BlockStatistics); ("BlockTablesMapIndex", BlockTables);
   ("ClassTypeMapIndex", ClassType); ("QueryResponseSignatureMapIndex", QueryResponseSignature); ("QuestionMapIndex", Question);
   ("RrMapIndex", RR); ("MalformedMessageDataMapIndex", MalformedMessageData); ("QueryResponseMapIndex", QueryResponse);
   ("ResponseProcessingDataMapIndex", ResponseProcessingData); ("QueryResponseExtendedMapIndex", QueryResponseExtended);
   ("AddressEventCountMapIndex", AddressEventCount); ("MalformedMessageMapIndex", MalformedMessage)].
Theorem FT_map_keys :
  forallb (fun et => zlist_eqb (enum_vals (fst et)) (keys_of (snd et)) &&
                     Bool.eqb (String.eqb (enum_type (fst et)) "int8_t") (signed_of (snd et)) &&
                     negb (match enum_vals (fst et) with [] => true | _ => false end)) struct_enums = true.
Proof. vm_compute. reflexivity. Qed.
Print Assumptions FT_map_keys.
(* the file itself: a 3-element array in the order type id, preamble, blocks *)
Theorem FT_file_array : enum_vals "FileMapIndex" = [0; 1; 2]%Z.
Proof. vm_compute. reflexivity. Qed.
Print Assumptions FT_file_array.

(* CBOR major types and the break byte *)
Theorem FT_cbor_types :
  List.map (enum_val "CborType") ["UNSIGNED"; "NEGATIVE"; "BYTE_STRING"; "TEXT_STRING"; "ARRAY"; "MAP"; "TAG"; "SIMPLE"; "BREAK"] =
  List.map Z.of_N [T_UNSIGNED; T_NEGATIVE; T_BYTES; T_TEXT; T_ARRAY; T_MAP; T_TAG; T_SIMPLE; T_BREAK] /\
  List.map (enum_val "CborType") ["UNSIGNED"; "NEGATIVE"; "BYTE_STRING"; "TEXT_STRING"; "ARRAY"; "MAP"; "TAG"; "SIMPLE"] =
  List.map (fun m => Z.of_N (mcode m)) [MU; MN; MB; MT; MA; MM; MTag; M7].
Proof. vm_compute. split; reflexivity. Qed.
Print Assumptions FT_cbor_types.

(* buffer sizes and index width *)
Theorem FT_sizes : gen_encoder_buffer_size = BUFFER_SIZE /\ gen_decoder_buffer_size = DEC_BUFFER_SIZE /\ snd gen_index_t = 32%N.
Proof. vm_compute. repeat split; reflexivity. Qed.
Print Assumptions FT_sizes.

(* the hint bit that governs each member of a generic query/response, by the NAME of its mask enumerator: the specification
   function [exp_qr] (what an application may expect back, C01/C04) is this table *)
Definition hb (e m : string) : N := N.log2 (Z.to_N (enum_val e m)).
Theorem FT_hint_masks_are_bits :
  forallb (fun e => forallb (fun v => (0 <? v)%Z && (Z.of_N (2 ^ N.log2 (Z.to_N v)) =? v)%Z) (enum_vals e))
          ["QueryResponseHintsMask"; "QueryResponseSignatureHintsMask"; "RrHintsMask"; "OtherDataHintsMask"] = true.
Proof. vm_compute. reflexivity. Qed.
Print Assumptions FT_hint_masks_are_bits.
Theorem FT_qr_hints : forall bp gr,
  let g := nth_o gr in let hq := h_qr bp in let hs := h_sig bp in let hr := h_rr bp in
  let Q := hb "QueryResponseHintsMask" in let S := hb "QueryResponseSignatureHintsMask" in
  let sg k ov := if N.testbit hq (Q "qr_signature_index") then bit hs k ov else None in
  exp_qr bp gr =
  [bit hq (Q "time_offset") (g 0%nat); bit hq (Q "client_address_index") (g 1%nat); bit hq (Q "client_port") (g 2%nat);
   bit hq (Q "transaction_id") (g 3%nat);
   sg (S "server_address_index") (g 4%nat); sg (S "server_port") (g 5%nat); sg (S "qr_transport_flags") (g 6%nat); sg (S "qr_type") (g 7%nat);
   sg (S "qr_sig_flags") (g 8%nat); sg (S "query_opcode") (g 9%nat); sg (S "qr_dns_flags") (g 10%nat); sg (S "query_rcode") (g 11%nat);
   sg (S "query_classtype_index") (g 12%nat); sg (S "query_qdcount") (g 13%nat); narrow16 (sg (S "query_ancount") (g 14%nat));
   sg (S "query_nscount") (g 15%nat); sg (S "query_arcount") (g 16%nat); sg (S "query_edns_version") (g 17%nat);
   sg (S "query_udp_size") (g 18%nat); sg (S "query_opt_rdata_index") (g 19%nat); sg (S "response_rcode") (g 20%nat);
   bit hq (Q "client_hoplimit") (g 21%nat); bit hq (Q "response_delay") (g 22%nat); bit hq (Q "query_name_index") (g 23%nat);
   bit hq (Q "query_size") (g 24%nat); bit hq (Q "response_size") (g 25%nat);
   bit hq (Q "response_processing_data") (g 26%nat); bit hq (Q "response_processing_data") (g 27%nat);
   exp_qsec hq (Q "query_question_sections") (g 28%nat); exp_rrsec hr hq (Q "query_answer_sections") (g 29%nat);
   exp_rrsec hr hq (Q "query_authority_sections") (g 30%nat); exp_rrsec hr hq (Q "query_additional_sections") (g 31%nat);
   exp_qsec hq (Q "query_question_sections") (g 32%nat); exp_rrsec hr hq (Q "response_answer_sections") (g 33%nat);
   exp_rrsec hr hq (Q "response_authority_sections") (g 34%nat); exp_rrsec hr hq (Q "response_additional_sections") (g 35%nat);
   g 36%nat; g 37%nat; g 38%nat].
Proof. intros bp gr. reflexivity. Qed.
Print Assumptions FT_qr_hints.
Theorem FT_rr_hints : forall hrr g,
  exp_rr hrr g = VR [Some (oval (rr_name g)); Some (oval (rr_ct g)); bit hrr (hb "RrHintsMask" "ttl") (rr_ttl g);
                     bit hrr (hb "RrHintsMask" "rdata_index") (rr_rdata g)].
Proof. intros. reflexivity. Qed.
Print Assumptions FT_rr_hints.
Theorem FT_other_hints : forall bp gm,
  new_mm bp gm = (if N.testbit (h_other bp) (hb "OtherDataHintsMask" "malformed_messages")
                  then (if filled (exp_mm gm) then [VR (exp_mm gm)] else []) else []) /\
  hb "OtherDataHintsMask" "address_event_counts" = 1%N.
Proof. intros. split; reflexivity. Qed.
Print Assumptions FT_other_hints.

(* ---------- member lists of the C++ structures (Gen_structs.v, translator/structs.py) against the descriptors ---------- *)
Require Import Gen_structs.
Fixpoint ty_eqb (a b : ty) {struct a} : bool :=
  match a, b with
  | TU x, TU y => N.eqb x y
  | TI, TI | TBool, TBool | TText, TText | TBytes, TBytes | TTime, TTime | TIdx, TIdx => true
  | TArr x, TArr y => ty_eqb x y
  | TMap s _ fs, TMap s' _ fs' => Bool.eqb s s' && fields_eqb fs fs'
  | _, _ => false
  end
with fields_eqb (a b : fields) {struct a} : bool :=
  match a, b with
  | FNil, FNil => true
  | FCons k p t r, FCons k' p' t' r' =>
      Z.eqb k k' && (match p, p' with Mand, Mand | MandNE, MandNE | Always, Always | Opt, Opt | NonEmpty, NonEmpty => true | _, _ => false end)
      && ty_eqb t t' && fields_eqb r r'
  | _, _ => false
  end.
Definition struct_descr : list (string * ty) :=
  [("StorageHints", StorageHints); ("StorageParameters", StorageParameters); ("CollectionParameters", CollectionParameters);
   ("BlockParameters", BlockParameters); ("FilePreamble", FilePreamble); ("ClassType", ClassType);
   ("QueryResponseSignature", QueryResponseSignature); ("Question", Question); ("RR", RR); ("MalformedMessageData", MalformedMessageData);
   ("ResponseProcessingData", ResponseProcessingData); ("QueryResponseExtended", QueryResponseExtended); ("BlockPreamble", BlockPreamble);
   ("BlockStatistics", BlockStatistics); ("QueryResponse", QueryResponse); ("AddressEventCount", AddressEventCount);
   ("MalformedMessage", MalformedMessage)].
Definition starts_struct (b : string) : option string :=
  if String.prefix "struct:" b then Some (String.substring 7 (String.length b - 7) b) else None.
(* the base type of a C++ member against the type of a descriptor member (element type for vectors) *)
Definition base_ok (b : string) (t : ty) : bool :=
  match starts_struct b with
  | Some n => match lookup n struct_descr with Some d => ty_eqb d t | None => false end
  | None =>
      match t with
      | TU bits => String.eqb b (if bits =? 8 then "u8" else if bits =? 16 then "u16" else if bits =? 32 then "u32" else "u64")%N
      | TI => String.eqb b "i64"
      | TBool => String.eqb b "bool"
      | TText | TBytes => String.eqb b "string"
      | TTime => String.eqb b "time"
      | _ => false
      end
  end.
(* one member: boost::optional <-> Opt; std::vector <-> an array written iff non-empty (or always / mandatory); plain <-> Mand / Always *)
Definition member_ok (m : bool * bool * string) (p : presence) (t : ty) : bool :=
  let '(opt, vec, b) := m in
  if vec then negb opt && (match p with NonEmpty | Mand | MandNE => true | _ => false end) &&
              (match t with TArr e => base_ok b e | _ => false end)
  else if opt then (match p with Opt => true | _ => false end) && base_ok b t
  else (match p with Mand | Always => true | _ => false end) && base_ok b t.
Fixpoint members_ok (ms : list (string * (bool * bool * string))) (fs : fields) : bool :=
  match ms, fs with
  | [], FNil => true
  | (_, m) :: ms', FCons _ p t r => member_ok m p t && members_ok ms' r
  | _, _ => false
  end.
(* the two time members travel as a tick offset (uint64) in the file: CdnsBlock::write / CdnsBlockRead::read convert (C17) *)
Definition time_as_offset (s : string) (ms : list (string * (bool * bool * string))) : list (string * (bool * bool * string)) :=
  if String.eqb s "QueryResponse" || String.eqb s "MalformedMessage"
  then match ms with (n, (o, v, _)) :: r => (n, (o, v, "u64")) :: r | [] => [] end else ms.
Theorem FT_struct_members :
  forallb (fun sd => match lookup (fst sd) gen_structs, snd sd with
                     | Some ms, TMap _ _ fs => members_ok (time_as_offset (fst sd) ms) fs
                     | _, _ => false
                     end) struct_descr = true.
Proof. vm_compute. reflexivity. Qed.
Print Assumptions FT_struct_members.

(* ---------- what the read() methods do per key (Gen_readers.v, translator/readers.py) against the descriptors ---------- *)
Require Import Gen_readers.
Definition reader_descr : list (string * ty) := struct_descr ++ [("BlockTables", BlockTables); ("Block", Schema.Block)].
Definition accs_of (t : ty) : list bool := match t with TMap _ accs _ => accs | _ => [] end.
(* one member: mandatory on reading <-> Mand / MandNE; the extra non-empty check <-> MandNE; a repeated key accumulates <-> the descriptor
   lists the member among those read() never resets (Schema.upd_slot); the value is read by the call that fits the member's type *)
(* how the value is read against the member's type: the CdnsDecoder call for scalars (read_unsigned / read_integer / read_bool /
   read_textstring / read_bytestring - so text and byte strings cannot be confused), some read(dec) for nested structures, times and index
   lists, dec.read_array(...) with the element's kind for vectors *)
Fixpoint kind_of (t : ty) : string :=
  match t with
  | TU _ => "u" | TI => "i" | TBool => "bool" | TText => "text" | TBytes => "bytes"
  | TTime | TIdx | TMap _ _ _ => "struct"
  | TArr e => "array:" ++ kind_of e
  end.
Fixpoint reader_fields_ok (i : nat) (accs : list bool) (rows : list (Z * (bool * bool * bool * string))) (fs : fields) : bool :=
  match rows, fs with
  | [], FNil => true
  | (k, (mand, ne, acc, kind)) :: rows', FCons k' p t r =>
      Z.eqb k k' &&
      Bool.eqb mand (match p with Mand | MandNE => true | _ => false end) &&
      Bool.eqb ne (match p with MandNE => true | _ => false end) &&
      Bool.eqb acc (nth i accs false) &&
      String.eqb kind (kind_of t) &&
      reader_fields_ok (S i) accs rows' r
  | _, _ => false
  end.
(* every reader handles exactly the keys of its descriptor, in the descriptor's order, with the descriptor's presence classes; its final
   check is a plain disjunction of missing-member tests (anything else would let a structure with a missing member through); every
   structure's read() resets the object first - CdnsBlockRead::read_blocktables is the one reader that does not (it is called again for a
   repeated block-tables key, which is why that member accumulates as a whole) *)
Theorem FT_reader_presence :
  forallb (fun sd => match lookup (fst sd) gen_readers, snd sd with
                     | Some (resets, plain_or, rows), TMap _ accs fs =>
                         reader_fields_ok 0 accs rows fs && Bool.eqb resets (negb (String.eqb (fst sd) "BlockTables")) && plain_or
                     | _, _ => false
                     end) reader_descr = true.
Proof. vm_compute. reflexivity. Qed.
Print Assumptions FT_reader_presence.

(* ---------- what the write() methods do per member (Gen_readers.v, same translator) against the descriptors ----------
   in the order THE CODE writes the members: the key (the enumerator's value), when the member is written - always <-> Mand / MandNE / Always,
   iff the boost::optional holds a value <-> Opt, iff the vector is not empty <-> NonEmpty - and by which call (text and byte strings,
   integers, booleans, nested structures, arrays with their element kind) *)
Fixpoint writer_fields_ok (rows : list (string * (string * string * string))) (fs : fields) : bool :=
  match rows, fs with
  | [], FNil => true
  | (nm, (en, guard, kind)) :: rows', FCons k p t r =>
      Z.eqb (enum_val en nm) k &&
      String.eqb guard (match p with Mand | MandNE | Always => "always" | Opt => "opt" | NonEmpty => "nonempty" end) &&
      String.eqb kind (kind_of t) &&
      writer_fields_ok rows' r
  | _, _ => false
  end.
Theorem FT_writer_presence :
  forallb (fun sd => match lookup (fst sd) gen_writers, snd sd with
                     | Some rows, TMap _ _ fs => writer_fields_ok rows fs
                     | _, _ => false
                     end) reader_descr = true.
Proof. vm_compute. reflexivity. Qed.
Print Assumptions FT_writer_presence.
