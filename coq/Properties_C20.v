(* Properties_C20.v — C20: independent exporter / reader instances are safe to use from concurrent threads.
   Two halves.  (1) [C20_schedule_independent]: threads whose steps touch only their own component of the state produce, under
   EVERY interleaving, the states and outputs of their sequential runs.  (2) the premise for the code - the library keeps no
   shared mutable state - is an obligation over [Gen_globals], the inventory of static-storage objects in writable sections and
   of external C callees that translator/globals.py regenerates from the freshly compiled objects on every run: everything
   writable must be one of the constant tables initialised before main, every callee must be on the list of functions that are
   thread-safe on distinct objects.  Only statements here. *)
Require Import String List Bool. Import ListNotations.
Require Import Base Interleave Gen_globals.
Open Scope string_scope.

Theorem C20_schedule_independent : forall (St Out : Type) (step : nat -> St -> St * Out) sched g t,
  fst (grun St Out step g sched) t = fst (seq_run St Out step t (g t) (count t sched)) /\
  outputs_of_thread Out t (snd (grun St Out step g sched)) = snd (seq_run St Out step t (g t) (count t sched)).
Proof. intros St Out step sched g t. apply schedule_independent. Qed.
Print Assumptions C20_schedule_independent.

(* objects with static storage that the linker places in writable sections: only constant tables that are fully constructed
   before main() and never written afterwards (the default opcode / RR-type lists) and the iostream initialiser *)
Definition allowed_static_objects : list string :=
  ["CDNS::OpCodesDefault"; "CDNS::RrTypesDefault"; "std::__ioinit"].
(* external C functions the library calls: thread-safe when used on distinct objects / buffers (POSIX, zlib, liblzma) *)
Definition allowed_c_callees : list string :=
  ["_GLOBAL_OFFSET_TABLE_"; "__assert_fail"; "deflate"; "deflateEnd"; "deflateInit2_"; "inet_ntop"; "lzma_code"; "lzma_easy_encoder"; "lzma_end";
   "memcmp"; "memcpy"; "memmove"; "memset"; "strlen"; "toupper"; "memchr"; "bcmp"; "rename"; "write"; "close"; "fstat"; "__fxstat"; "fstat64"; "abort"].
Definition subset (a b : list string) : bool := forallb (fun x => existsb (String.eqb x) b) a.

Theorem C20_no_shared_writable_state : subset writable_static_objects allowed_static_objects = true.
Proof. vm_compute. reflexivity. Qed.
Print Assumptions C20_no_shared_writable_state.
Theorem C20_external_callees_reentrant : subset external_c_callees allowed_c_callees = true.
Proof. vm_compute. reflexivity. Qed.
Print Assumptions C20_external_callees_reentrant.

Example C20_nonvacuous :
  let step := fun (t : nat) (s : nat) => (s + t + 1, s)%nat in
  snd (grun nat nat step (fun _ => O) [1; 0; 1; 1; 0]%nat) = [(1, 0); (0, 0); (1, 2); (1, 4); (0, 1)]%nat /\
  snd (seq_run nat nat step 1%nat 0%nat 3) = [0; 2; 4]%nat.
Proof. vm_compute. split; reflexivity. Qed.
