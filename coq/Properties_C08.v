(* Properties_C08.v — C08: reading is invariant under equivalent re-encoding and ignores unknown members.
   [enc_of t x v] (Reencode.v) says that the item x - with ANY head widths, definite or indefinite arrays / maps / strings, any
   chunking, the members of every map in ANY order, extra members with unknown keys (in the int64 range) carrying ARBITRARY
   well-formed items (tagged, floating-point, deeply nested ...) - denotes the value v under descriptor t; the value of a map is
   defined from its entries by key lookup.  Only statements here. *)
Require Import Base Cbor DecoderModel DecoderProofs Schema SchemaProofs Reencode Permutation Properties_C09.
Local Open Scope N_scope.

(* the reader returns the denoted value for EVERY encoding of it, for every structure of the format (preamble, parameters,
   blocks, tables, records), leaving what follows untouched *)
Theorem C08_refines : forall t, In t all_descriptors -> forall x v g rest, enc_of t x v -> (length (ser x) < g)%nat ->
  run (read_val g t) (ser x ++ rest) = (inl v, rest).
Proof.
  intros t Hin x v g rest He Hg.
  assert (Hd : desc_ok t = true). { pose proof C09_descriptors_ok as H. rewrite forallb_forall in H. apply H. exact Hin. }
  apply (proj1 reencode_reads t x v Hd He). exact Hg.
Qed.
Print Assumptions C08_refines.

(* hence two files / structures that denote the same data decode to the same result, however differently they are encoded *)
Theorem C08_invariance : forall t, In t all_descriptors -> forall x1 x2 v g r1 r2, enc_of t x1 v -> enc_of t x2 v ->
  (length (ser x1) < g)%nat -> (length (ser x2) < g)%nat ->
  fst (run (read_val g t) (ser x1 ++ r1)) = fst (run (read_val g t) (ser x2 ++ r2)).
Proof. intros t Hin x1 x2 v g r1 r2 H1 H2 G1 G2. rewrite (C08_refines t Hin x1 v), (C08_refines t Hin x2 v) by auto. reflexivity. Qed.
Print Assumptions C08_invariance.

(* every encoding the relation admits is a well-formed item, so a generic reader can skip it as a whole *)
Theorem C08_encodings_wellformed : forall t, In t all_descriptors -> forall x v, enc_of t x v -> wf x.
Proof.
  intros t Hin x v He. assert (Hd : desc_ok t = true). { pose proof C09_descriptors_ok as H. rewrite forallb_forall in H. apply H. exact Hin. }
  apply (proj1 reencode_reads t x v Hd He).
Qed.
Print Assumptions C08_encodings_wellformed.

(* the denoted value of a map does not depend on the order of its members (distinct known keys) ... *)
Theorem C08_member_order : forall es es' r, Permutation es es' -> NoDup (known_slots es) ->
  fold_left apply_e es r = fold_left apply_e es' r.
Proof. intros es es' r Hp Hn. apply fold_apply_perm; auto. Qed.
Print Assumptions C08_member_order.
(* ... nor on members with unknown keys, wherever they stand *)
Theorem C08_unknown_members : forall es1 e es2 r, e_upd e = None ->
  fold_left apply_e (es1 ++ e :: es2) r = fold_left apply_e (es1 ++ es2) r.
Proof. exact fold_apply_unknown. Qed.
Print Assumptions C08_unknown_members.

(* KNOWN FINDING (keys outside the int64 range): read_integer wraps them, so 2^64-1 is taken for key -1 and -2^64 for key 0;
   the relation therefore restricts keys to the int64 range, and the wrap is exhibited here *)
Theorem C08_bigkey_refuted : to_i64 18446744073709551615 = (-1)%Z /\ neg_of 18446744073709551615 = 0%Z.
Proof. vm_compute. split; reflexivity. Qed.
Print Assumptions C08_bigkey_refuted.

(* non-vacuity: a ClassType map written indefinite-length, members swapped, widened heads, and an unknown key carrying a tagged float *)
Example C08_nonvacuous :
  let x := IContIndef true [IInt false W1 1; IInt false W8 255; IInt false W2 1000; ITag W0 1 (ISeven W4 1078530011); IInt false W0 0; IInt false W4 28] in
  enc_of ClassType x (VR [Some (VN 28); Some (VN 255)]) /\
  run (read_val 60 ClassType) (ser x ++ [7]) = (inl (VR [Some (VN 28); Some (VN 255)]), [7]).
Proof.
  split; [|vm_compute; reflexivity].
  cbn [enc_of ClassType S_ mk_fields].
  exists [mkEntry (IInt false W1 1) (IInt false W8 255) 1 (Some (1%nat, VN 255));
          mkEntry (IInt false W2 1000) (ITag W0 1 (ISeven W4 1078530011)) 1000 None;
          mkEntry (IInt false W0 0) (IInt false W4 28) 0 (Some (0%nat, VN 28))].
  split; [right; reflexivity|]. split; [|split; reflexivity].
  repeat constructor; cbn.
  - exists false, W1, 1. cbn. unfold two63. repeat split; lia.
  - exists (VN 255). split; [reflexivity|]. exists 255. split; [exists W8; split; [reflexivity|cbn; lia]|reflexivity].
  - exists false, W2, 1000. cbn. unfold two63. repeat split; lia.
  - exists false, W0, 0. cbn. unfold two63. repeat split; lia.
  - exists (VN 28). split; [reflexivity|]. exists 28. split; [exists W4; split; [reflexivity|cbn; lia]|reflexivity].
Qed.
