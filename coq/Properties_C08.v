(* Properties_C08.v — C08: reading is invariant under equivalent re-encoding and ignores unknown members.
   [enc_of t x v] (Reencode.v) says that the item x - with ANY head widths, definite or indefinite arrays / maps / strings, any
   chunking, the members of every map in ANY order, extra members with unknown keys (in the int64 range) carrying ARBITRARY
   well-formed items (tagged, floating-point, deeply nested ...) - denotes the value v under descriptor t; the value of a map is
   defined from its entries by key lookup.  Only statements here. *)
Require Import Base Cbor DecoderModel DecoderProofs Schema SchemaProofs Reencode Permutation Properties_C09
               Block Exporter E2ESpec BlockRead FileProofs ReencodeFile.
Local Open Scope N_scope.

(* the reader returns the denoted value for EVERY encoding of it, for every structure of the format (preamble, parameters,
   blocks, tables, records), leaving what follows untouched *)
Theorem C08_refines : forall t, In t all_descriptors -> forall x v g rest, enc_of t x v -> (length (ser x) < g)%nat ->
  run (read_val g t) (ser x ++ rest) = (inl v, rest).
Proof.
  intros t Hin x v g rest He Hg.
  assert (Hd : desc_ok t = true). { pose proof C09_descriptors_ok as H. rewrite forallb_forall in H. apply H. exact Hin. }
  apply (proj1 reencode_reads t x v Hd He). exact Hg.
Qed.
Print Assumptions C08_refines.

(* hence two files / structures that denote the same data decode to the same result, however differently they are encoded *)
Theorem C08_invariance : forall t, In t all_descriptors -> forall x1 x2 v g r1 r2, enc_of t x1 v -> enc_of t x2 v ->
  (length (ser x1) < g)%nat -> (length (ser x2) < g)%nat ->
  fst (run (read_val g t) (ser x1 ++ r1)) = fst (run (read_val g t) (ser x2 ++ r2)).
Proof. intros t Hin x1 x2 v g r1 r2 H1 H2 G1 G2. rewrite (C08_refines t Hin x1 v), (C08_refines t Hin x2 v) by auto. reflexivity. Qed.
Print Assumptions C08_invariance.

(* every encoding the relation admits is a well-formed item, so a generic reader can skip it as a whole *)
Theorem C08_encodings_wellformed : forall t, In t all_descriptors -> forall x v, enc_of t x v -> wf x.
Proof.
  intros t Hin x v He. assert (Hd : desc_ok t = true). { pose proof C09_descriptors_ok as H. rewrite forallb_forall in H. apply H. exact Hin. }
  apply (proj1 reencode_reads t x v Hd He).
Qed.
Print Assumptions C08_encodings_wellformed.

(* the denoted value of a map does not depend on the order of its members (distinct known keys) ... - whichever members of the structure
   the reader appends to on a repeated key ([accs]; cf. Schema.upd_slot) *)
Theorem C08_member_order : forall accs es es' r, Permutation es es' -> NoDup (known_slots es) ->
  fold_left (apply_e accs) es r = fold_left (apply_e accs) es' r.
Proof. intros accs es es' r Hp Hn. apply fold_apply_perm; auto. Qed.
Print Assumptions C08_member_order.
(* ... nor on members with unknown keys, wherever they stand *)
Theorem C08_unknown_members : forall accs es1 e es2 r, e_upd e = None ->
  fold_left (apply_e accs) (es1 ++ e :: es2) r = fold_left (apply_e accs) (es1 ++ es2) r.
Proof. exact fold_apply_unknown. Qed.
Print Assumptions C08_unknown_members.

(* the writer's canonical tree is itself one of the encodings of the value (C09 is the special case of C08 for the library's own output) *)
Theorem C08_canonical_is_an_encoding : forall t, In t all_descriptors -> forall v, has_ty t v -> enc_of t (tree_of t v) v.
Proof.
  intros t Hin v Ht. assert (Hd : desc_ok t = true). { pose proof C09_descriptors_ok as H. rewrite forallb_forall in H. apply H. exact Hin. }
  apply (proj1 canonical_enc); auto.
Qed.
Print Assumptions C08_canonical_is_an_encoding.

(* WHOLE FILES.  For every re-encoding of a file — the outer array and the block array each definite (any head width) or indefinite,
   the type id a definite (any width) or chunked text string, the preamble and every block ANY encoding denoting the same value — the
   file reader returns the same preamble and the same blocks (blocks satisfying the builder's invariants and referring to parameter
   sets of the preamble) *)
Theorem C08_file_invariance : forall pre bs oi tid xp bi xbs g,
  tid_ok tid -> enc_of FilePreamble xp pre ->
  Forall2 (fun xb b => enc_of Schema.Block xb (blk_val b)) xbs bs ->
  Forall (blk_params_ok (params_of pre)) bs -> Forall good_blk bs ->
  (forall w, oi = Some w -> wfits w 3) -> (forall w, bi = Some w -> wfits w (N.of_nat (length xbs))) ->
  (length (ser (file_item oi tid xp bi xbs)) < g)%nat ->
  fst (run (read_file g) (ser (file_item oi tid xp bi xbs))) = inl (pre, map rb_of bs).
Proof. exact read_file_reencoded. Qed.
Print Assumptions C08_file_invariance.
(* ... and the exporter's own output is one member of that family *)
Theorem C08_exporter_output_in_family : forall pre bs, bs <> [] -> typed_pre pre -> Forall typed_blk bs ->
  let xbs := map (fun b => tree_of Schema.Block (blk_val b)) bs in
  file_bytes pre bs = ser (file_item (Some W0) (IStr true W0 cdns_text) (tree_of FilePreamble pre) None xbs) /\
  tid_ok (IStr true W0 cdns_text) /\ enc_of FilePreamble (tree_of FilePreamble pre) pre /\
  Forall2 (fun xb b => enc_of Schema.Block xb (blk_val b)) xbs bs.
Proof. exact exporter_output_in_family. Qed.
Print Assumptions C08_exporter_output_in_family.

(* keys outside the int64 range (defect F15, repaired in /repo: read_integer / read_negative clamp instead of wrapping, so 2^64-1 is no longer
   taken for key -1 nor -2^64 for key 0): the relation above admits ANY integer item as a key ([key_enc]); a key outside the range reads as
   an end of the range, and no structure defines a key there - every descriptor's keys lie in [-128, 255] - so it is an unknown member *)
Theorem C08_wide_keys_clamped : forall n, two63 <= n -> clamp_i64 n = (Z.of_N two63 - 1)%Z /\ neg_of n = (- Z.of_N two63)%Z.
Proof. intros n H. unfold clamp_i64, neg_of. assert (n <? two63 = false) as -> by lia. split; reflexivity. Qed.
Print Assumptions C08_wide_keys_clamped.
Theorem C08_no_key_at_the_ends :
  forallb (fun t => match t with TMap _ _ fs => forallb (fun k => (-128 <=? k)%Z && (k <? 256)%Z) (fkeys fs) | _ => true end) all_descriptors = true.
Proof. vm_compute. reflexivity. Qed.
Print Assumptions C08_no_key_at_the_ends.
Example C08_wide_keys_ignored :
  (* {0: 28, -2^64: 0, 1: 1, 2^64-1: 7} read as a ClassType: type 28, class 1 *)
  run (read_val 60 ClassType) [164; 0; 24; 28; 59; 255; 255; 255; 255; 255; 255; 255; 255; 0; 1; 1; 27; 255; 255; 255; 255; 255; 255; 255; 255; 7; 9] =
    (inl (VR [Some (VN 28); Some (VN 1)]), [9]).
Proof. vm_compute. reflexivity. Qed.

(* non-vacuity: a ClassType map written indefinite-length, members swapped, widened heads, and an unknown key carrying a tagged float *)
Example C08_nonvacuous :
  let x := IContIndef true [IInt false W1 1; IInt false W8 255; IInt false W2 1000; ITag W0 1 (ISeven W4 1078530011); IInt false W0 0; IInt false W4 28] in
  enc_of ClassType x (VR [Some (VN 28); Some (VN 255)]) /\
  run (read_val 60 ClassType) (ser x ++ [7]) = (inl (VR [Some (VN 28); Some (VN 255)]), [7]).
Proof.
  split; [|vm_compute; reflexivity].
  cbn [enc_of ClassType S_ mk_fields].
  exists [mkEntry (IInt false W1 1) (IInt false W8 255) 1 (Some (1%nat, VN 255));
          mkEntry (IInt false W2 1000) (ITag W0 1 (ISeven W4 1078530011)) 1000 None;
          mkEntry (IInt false W0 0) (IInt false W4 28) 0 (Some (0%nat, VN 28))].
  split; [right; reflexivity|]. split; [|split; reflexivity].
  repeat constructor; cbn.
  - exists false, W1, 1. cbn. unfold two63. repeat split; lia.
  - exists (VN 255). split; [reflexivity|]. exists 255. split; [exists W8; split; [reflexivity|cbn; lia]|reflexivity].
  - exists false, W2, 1000. cbn. unfold two63. repeat split; lia.
  - exists false, W0, 0. cbn. unfold two63. repeat split; lia.
  - exists (VN 28). split; [reflexivity|]. exists 28. split; [exists W4; split; [reflexivity|cbn; lia]|reflexivity].
Qed.
