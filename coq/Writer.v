(* Writer.v — model of the output writer stack (src/writer.{h,cpp}): Writer<std::string> (".part" + rename),
   Writer<int>, and the gzip / xz wrappers, as generators of operating-system events, together with a small
   file-system semantics for those events.  External code is a Section variable with recorded hypotheses:
   the compressor (zlib / liblzma) is an abstract state machine [crun]/[cfinish] with a decompressor, the stream
   library's buffering is abstracted by coalescing adjacent writes (the harness does the same to the observed trace).
   Names are numbers: [Part n] is "<name><ext>.part", [Final n] is "<name><ext>"; that user names never collide with
   another output's ".part" name is thereby an assumption of the model. *)
Require Import Base.
Local Open Scope N_scope.

Inductive path := Part (n : N) | Final (n : N) | Fd (n : N).
Inductive event :=
| EOpen (p : path)                 (* open(O_TRUNC|O_CREAT) *)
| EWrite (p : path) (bs : list N)
| EClose (p : path)
| ERename (n : N).                 (* rename(Part n, Final n) *)

Inductive wop :=
| WWrite (bs : list N)             (* BaseCborOutputWriter::write *)
| WRotate (n : N).                 (* rotate_output(new name / new descriptor) *)
(* a scenario is a list of these, optionally ended by the destruction of the writer *)

(* ------------------------------------------------------------------------------------------------ plain writers *)
(* Writer<std::string>: open() in the constructor; close() = flush, close, rename; rotate = close, new name, open *)
Definition named_step (cur : N) (o : wop) : N * list event :=
  match o with
  | WWrite bs => (cur, [EWrite (Part cur) bs])
  | WRotate n => (n, [EClose (Part cur); ERename cur; EOpen (Part n)])
  end.
Definition named_destroy (cur : N) : list event := [EClose (Part cur); ERename cur].
(* Writer<int>: nothing on open (fstat); close() closes the descriptor *)
Definition fd_step (cur : N) (o : wop) : N * list event :=
  match o with
  | WWrite bs => (cur, [EWrite (Fd cur) bs])
  | WRotate n => (n, [EClose (Fd cur)])
  end.
Definition fd_destroy (cur : N) : list event := [EClose (Fd cur)].

Section Steps.
  Variable step : N -> wop -> N * list event.
  Variable fin : N -> list event.          (* the events of the destructor *)
  Fixpoint run_steps (cur : N) (ops : list wop) (destroyed : bool) : list event :=
    match ops with
    | [] => if destroyed then fin cur else []
    | o :: r => let '(cur', evs) := step cur o in evs ++ run_steps cur' r destroyed
    end.
End Steps.
Definition named_trace (n0 : N) (ops : list wop) (destroyed : bool) : list event :=
  EOpen (Part n0) :: run_steps named_step named_destroy n0 ops destroyed.
Definition fd_trace (n0 : N) (ops : list wop) (destroyed : bool) : list event := run_steps fd_step fd_destroy n0 ops destroyed.

(* ------------------------------------------------------------------------------------------------ file system *)
Definition fs := path -> option (list N).
Definition path_eqb (a b : path) : bool :=
  match a, b with Part x, Part y | Final x, Final y | Fd x, Fd y => x =? y | _, _ => false end.
Definition upd (f : fs) (p : path) (c : option (list N)) : fs := fun q => if path_eqb q p then c else f q.
Definition fs_apply (f : fs) (e : event) : fs :=
  match e with
  | EOpen p => upd f p (Some [])
  | EWrite p bs => match f p with Some c => upd f p (Some (c ++ bs)) | None => f end
  | EClose _ => f
  | ERename n => upd (upd f (Final n) (f (Part n))) (Part n) None
  end.
Definition fs_run (f : fs) (evs : list event) : fs := fold_left fs_apply evs f.

(* the data each output receives: the concatenation of the writes while it was open, per output in closing order *)
Fixpoint outputs_of (cur : N) (acc : list N) (ops : list wop) (destroyed : bool) : list (N * list N) :=
  match ops with
  | [] => if destroyed then [(cur, acc)] else []
  | WWrite bs :: r => outputs_of cur (acc ++ bs) r destroyed
  | WRotate n :: r => (cur, acc) :: outputs_of n [] r destroyed
  end.

(* ------------------------------------------------------------------------------------------------ compression wrappers *)
Section Codec.
  Variable cstate : Type.
  Variable cinit : cstate.
  Variable crun : cstate -> list N -> cstate * list N.      (* deflate(Z_NO_FLUSH) / lzma_code(LZMA_RUN) until avail_in = 0 *)
  Variable cfinish : cstate -> list N.                      (* ... (Z_FINISH) until Z_STREAM_END *)
  Variable decompress : list N -> option (list N).

  (* Gzip/XzCborOutputWriter over an inner writer: write = compress and forward what came out; rotate_output = close()
     [finish, forward], inner rotate_output, open() [re-initialise]; destruction = close(), then the inner writer's *)
  Fixpoint czip (s : cstate) (ops : list wop) (destroyed : bool) : list wop :=
    match ops with
    | [] => if destroyed then [WWrite (cfinish s)] else []
    | WWrite bs :: r => let '(s', out) := crun s bs in WWrite out :: czip s' r destroyed
    | WRotate n :: r => WWrite (cfinish s) :: WRotate n :: czip cinit r destroyed
    end.

  (* one complete compressed stream for a list of chunks *)
  Fixpoint cstream (s : cstate) (chunks : list (list N)) : list N :=
    match chunks with
    | [] => cfinish s
    | c :: r => let '(s', out) := crun s c in out ++ cstream s' r
    end.
End Codec.

(* ------------------------------------------------------------------------------------------------ output failures (C16)
   The operating system accepts at most [budget] further bytes on an output (disk full / file size limit): a write that
   does not fit is short (the part that fits is stored), later writes fail.  Calls on the writer API and their outcome. *)
Inductive wcall := CWrite (bs : list N) | CRotate (budget : N).      (* rotate to a destination with that budget *)
Inductive outcome := Done | Threw.

Record fout := mkFout { stored : list N; intended : list N; room : N }.   (* one output: bytes on disk, bytes handed to write() *)
Definition fout_new (budget : N) : fout := mkFout [] [] budget.

(* Writer<int>::write: ret = ::write(fd, p, size); if (ret != size) throw CborOutputException *)
Definition fd_write (o : fout) (bs : list N) : fout * outcome :=
  let n := N.of_nat (length bs) in
  if n <=? room o then (mkFout (stored o ++ bs) (intended o ++ bs) (room o - n), Done)
  else (mkFout (stored o ++ firstn (N.to_nat (room o)) bs) (intended o ++ bs) 0, Threw).

(* Writer<std::string>::write: m_out.write(p, size) with no check of the stream state.  Once a flush of the ofstream fails it
   is bad: nothing further reaches the file; close() and rename() are still performed; no call reports anything.  [sbad] *)
Record nout := mkNout { n_out : fout; n_bad : bool }.
Definition named_write (o : nout) (bs : list N) : nout * outcome :=
  let f := n_out o in
  let n := N.of_nat (length bs) in
  if n_bad o then (mkNout (mkFout (stored f) (intended f ++ bs) (room f)) true, Done)
  else if n <=? room f then (mkNout (mkFout (stored f ++ bs) (intended f ++ bs) (room f - n)) false, Done)
  else (mkNout (mkFout (stored f ++ firstn (N.to_nat (room f)) bs) (intended f ++ bs) 0) true, Done).

(* a history of calls on a descriptor writer: the closed outputs (oldest first), the open one, the outcome of every call *)
Fixpoint fd_calls (cur : fout) (calls : list wcall) : list fout * fout * list outcome :=
  match calls with
  | [] => ([], cur, [])
  | CWrite bs :: r => let '(cur', oc) := fd_write cur bs in
                      let '(closed, last, ocs) := fd_calls cur' r in (closed, last, oc :: ocs)
  | CRotate b :: r => let '(closed, last, ocs) := fd_calls (fout_new b) r in (cur :: closed, last, Done :: ocs)
  end.
Fixpoint named_calls (cur : nout) (calls : list wcall) : list fout * fout * list outcome :=
  match calls with
  | [] => ([], n_out cur, [])
  | CWrite bs :: r => let '(cur', oc) := named_write cur bs in
                      let '(closed, last, ocs) := named_calls cur' r in (closed, last, oc :: ocs)
  | CRotate b :: r => let '(closed, last, ocs) := named_calls (mkNout (fout_new b) false) r in (n_out cur :: closed, last, Done :: ocs)
  end.
Definition lost (o : fout) : bool := negb (N.of_nat (length (stored o)) =? N.of_nat (length (intended o))).

(* CdnsEncoder::rotate_output: flush_buffer() into the OLD output first; only if that succeeds is the writer rotated *)
Definition enc_rotate_fd (cur : fout) (staged : list N) (budget : N) : fout * list N * outcome :=
  match staged with
  | [] => (fout_new budget, [], Done)
  | _ => let '(cur', oc) := fd_write cur staged in
         match oc with
         | Done => (fout_new budget, [], Done)
         | Threw => (cur', staged, Threw)          (* not rotated: the staged bytes are kept and re-flushed by the next call *)
         end
  end.
