(* Properties_C02.v — C02: every finished output is one well-formed, schema-valid C-DNS document.
   Only statements live here. *)
Require Import Base Cbor EncoderModel DecoderModel DecoderProofs Schema SchemaProofs Block Exporter ExporterProofs Properties_C09
               BlockRead FileProofs E2ESpec BlockDecode ViewProofs AecView EndToEnd.
Local Open Scope N_scope.

(* what any structure of the format writes is the serialisation of exactly ONE well-formed CBOR item (the canonical tree
   of its value): every declared array / map length equals the number of members actually present — including optional
   structures that are present but have no member set (an empty map) and empty index lists (an empty array) *)
Theorem C02_struct_one_item : forall t, In t all_descriptors -> forall v, has_ty t v ->
  fst (write_struct t v) = ser (tree_of t v) /\ wf (tree_of t v).
Proof.
  intros t Hin v Ht.
  assert (Hd : desc_ok t = true). { pose proof C09_descriptors_ok as H. rewrite forallb_forall in H. apply H. exact Hin. }
  rewrite (write_struct_spec t v Hd Ht). split; [reflexivity|]. apply (proj1 tree_wf); auto.
Qed.
Print Assumptions C02_struct_one_item.

(* hence a generic CBOR reader consumes it as one data item and stops exactly at its end (no trailing, no missing byte) *)
Theorem C02_struct_skips : forall t, In t all_descriptors -> forall v rest g, has_ty t v ->
  (length (fst (write_struct t v)) <= g)%nat ->
  run (skip_item g) (fst (write_struct t v) ++ rest) = (inl tt, rest).
Proof.
  intros t Hin v rest g Ht Hg. destruct (C02_struct_one_item t Hin v Ht) as [He Hw]. rewrite He in *.
  apply skip_item_spec; auto.
Qed.
Print Assumptions C02_struct_skips.

(* a present-but-empty optional structure is written as the empty map, never as zero bytes *)
Theorem C02_empty_structures :
  fst (write_struct BlockStatistics (VR [None; None; None; None; None; None])) = [160] /\
  fst (write_struct CollectionParameters (VR [None; None; None; None; Some (VL []); Some (VL []); Some (VL []); None; None; None])) = [160] /\
  fst (write_struct QueryResponseExtended (VR [None; None; None; None])) = [160] /\
  fst (write_struct TIdx (VL [])) = [128].
Proof. vm_compute. repeat split. Qed.
Print Assumptions C02_empty_structures.

(* an output to which no block was written receives no data at all, over every history of API calls *)
Theorem C02_empty_output : forall pre ops, let x := xrun (x_new pre) ops in x_written x = 0 ->
  hd [] (x_closed (fst (rotate false x))) = [] /\ destroy x = [].
Proof.
  intros pre ops x Hw.
  assert (Hf : fresh_inv x).
  { subst x. clear Hw. assert (H : forall ops y, fresh_inv y -> fresh_inv (xrun y ops)).
    { induction ops0 as [|o ops' IH]; intros y Hy; cbn [xrun fold_left]; auto. apply IH. apply xstep_fresh. exact Hy. }
    apply H. apply x_new_fresh. }
  pose proof (rotate_empty_output x Hf Hw) as (H1 & _ & H2). auto.
Qed.
Print Assumptions C02_empty_output.

(* blocks are only ever written non-empty (C12), and table indices handed out are in range and stay valid (C11) *)
Theorem C02_blocks_nonempty : forall pre ops, Forall (fun b => item_count b <> 0) (x_done (xrun (x_new pre) ops)).
Proof.
  intros pre ops. pose proof (xrun_inv ops (x_new pre) (x_new_inv pre)) as [_ H]. eapply Forall_impl; [|exact H]. cbn. tauto.
Qed.
Print Assumptions C02_blocks_nonempty.

(* WHOLE OUTPUTS.  Over every admissible history whose values stay within the ranges of the format, every closed output and
   the open output as destruction closes it is either empty (no block was written to it) or exactly ONE well-formed CBOR
   data item: the definite 3-element file array ["C-DNS", preamble, indefinite array of the blocks written to it, break] —
   nothing before it, nothing after it, every declared length equal to the members present. *)
Theorem C02_output_is_one_item : forall pre bs, bs <> [] -> typed_pre pre -> Forall typed_blk bs ->
  file_bytes pre bs = ser (file_tree pre bs) /\ wf (file_tree pre bs).
Proof. exact file_is_one_item. Qed.
Print Assumptions C02_output_is_one_item.
Theorem C02_outputs_of_history : forall pre ops, typed_pre pre -> adm0 pre ops -> typed_x (xrun (x_new pre) ops) ->
  let x := xrun (x_new pre) ops in
  exists (last : val) cur closed,
    x_closed x = map (fun pb => file_bytes (fst pb) (snd pb)) closed /\
    destroy x = file_bytes last cur /\
    x_done x = flat_map snd (rev closed) ++ cur /\
    Forall reads_back ((last, cur) :: closed).
Proof. exact history_outputs. Qed.
Print Assumptions C02_outputs_of_history.
(* ... and a generic CBOR reader consumes such an output as exactly one item *)
Theorem C02_output_skips : forall pre bs g, bs <> [] -> typed_pre pre -> Forall typed_blk bs ->
  (length (file_bytes pre bs) <= g)%nat -> run (skip_item g) (file_bytes pre bs) = (inl tt, []).
Proof.
  intros pre bs g Hne Tp Tb Hg. destruct (file_is_one_item pre bs Hne Tp Tb) as [He Hw]. rewrite He in *.
  rewrite <- (app_nil_r (ser _)). apply skip_item_spec; auto.
Qed.
Print Assumptions C02_output_skips.

(* every index stored in an item or in a table entry addresses an existing entry of the right table: over every history, every item of
   every written block (and of the buffered one) is resolved completely by the generic readers in its block's final tables - client / server
   address, signature and its class/type, name and address indices, query name, bailiwick, the eight section lists with their question / RR
   entries and those entries' name, class/type and RDATA indices, malformed-message data and its address (the readers return None as soon as
   a single index is out of range) *)
Theorem C02_indices_resolve : forall pre ops, let x := xrun (x_new pre) ops in
  Forall (fun b => Forall (fun o => o <> None) (blk_view_qr b) /\ Forall (fun o => o <> None) (blk_view_mm b)) (x_done x ++ [x_blk x]).
Proof. exact indices_resolve. Qed.
Print Assumptions C02_indices_resolve.

Example C02_nonvacuous : has_ty BlockStatistics (VR [None; None; Some (VN 7); None; None; None]) /\
  fst (write_struct BlockStatistics (VR [None; None; Some (VN 7); None; None; None])) = [161; 2; 7].
Proof. split; [cbn; repeat split; lia|vm_compute; reflexivity]. Qed.
