(* BlockRead.v — what CdnsBlockRead::read ([block_of_val]) makes of the value CdnsBlock::write serialises ([blk_val]):
   the block itself.  Record times go out as offsets from the block's earliest time and come back as the same absolute
   times (C17 arithmetic), address-event counts are re-aggregated to the same key -> count list.  The side conditions are
   invariants of every block the exporter builds from admissible records (proved over histories below). *)
Require Import Base Cbor EncoderModel DecoderModel Schema Timestamp TimestampProofs Block BlockProofs Exporter ExporterProofs E2ESpec.
Local Open Scope N_scope.

Definition item_time_ok (e : ts) (tps : Z) (it : val) : Prop :=
  match it with
  | VR (Some tv :: _) => rate_ok tps /\ exists t, ts_of_val tv = Some t /\ normalised t tps /\ ts_ok t tps /\ (instant e tps <= instant t tps)%Z
  | _ => True
  end.
Definition time_inv (b : blk) : Prop :=
  let e := b_earliest b in let tps := tps_of b in
  (0 <= secs e)%Z /\ (0 <= ticks e)%Z /\ (rate_ok tps -> normalised e tps /\ ts_ok e tps) /\
  Forall (item_time_ok e tps) (b_qrs b) /\ Forall (item_time_ok e tps) (b_mms b).
Definition aec_shape (k : val) : Prop := exists a b c d, k = VR [a; b; c; d; Some (VN 0)].
Definition aec_inv (l : list (val * N)) : Prop := Forall (fun kc => aec_shape (fst kc)) l /\ NoDup (map fst l).
Definition good_blk (b : blk) : Prop := time_inv b /\ aec_inv (b_aecs b).

Definition rb_of (b : blk) : rblock :=
  mkRb (ts_val (b_earliest b)) (Some (VN (b_bpi b))) (b_bp b) (b_stats b)
       (match tables_val (b_tb b) with Some (VR l) => l | _ => [] end) (b_qrs b) (b_aecs b) (b_mms b).

(* ---------- times ---------- *)
Lemma ts_of_val_ts_val e : (0 <= secs e)%Z -> (0 <= ticks e)%Z -> ts_of_val (ts_val e) = Some e.
Proof. intros H1 H2. unfold ts_val, ts_of_val. rewrite !Z2N.id by auto. destruct e; reflexivity. Qed.

Lemma resolve_conv e tps it : (0 <= secs e)%Z -> (0 <= ticks e)%Z -> (rate_ok (Z.of_N tps) -> normalised e (Z.of_N tps) /\ ts_ok e (Z.of_N tps)) ->
  item_time_ok e (Z.of_N tps) it -> resolve_time e tps (conv_item e tps it) = Some it.
Proof.
  intros He1 He2 Hen H. destruct it as [| | | | |[|[tv|] rest]]; try reflexivity. cbn [item_time_ok] in H.
  destruct H as (Hr & t & Ht & Hn & Hok & Hle). destruct (Hen Hr) as [Hne Hoke].
  cbn [conv_item]. unfold offset_val. rewrite Ht. rewrite (offset_exact t e _ Hr Hok Hoke).
  cbn [resolve_time].
  set (z := (instant t (Z.of_N tps) - instant e (Z.of_N tps))%Z).
  assert (Hz : (0 <= z < M63)%Z).
  { subst z. destruct Hok as (_ & _ & Hi). pose proof (instant_nonneg e _ Hr Hoke). lia. }
  assert (Hu : DecoderModel.to_i64 (to_u64 z) = z).
  { unfold to_u64, DecoderModel.to_i64. change (Z.of_N two64) with M64. rewrite Z.mod_small by (unfold M63, M64 in *; lia).
    assert (Z.to_N z <? two63 = true) as -> by (unfold two63, M63 in *; lia). apply Z2N.id. lia. }
  rewrite Hu. destruct (add_inverse t e _ Hr Hok Hoke) as (t' & Ha & _ & _ & Heq). fold z in Ha. rewrite Ha, (Heq Hn).
  destruct tv as [| | | |[|[s| | | | |] [|[k| | | | |] [|? ?]]]|]; try discriminate. cbn [ts_of_val] in Ht. inversion Ht; subst.
  unfold ts_val. cbn [secs ticks]. rewrite !N2Z.id. reflexivity.
Qed.

Lemma resolve_all_conv e tps l : (0 <= secs e)%Z -> (0 <= ticks e)%Z -> (rate_ok (Z.of_N tps) -> normalised e (Z.of_N tps) /\ ts_ok e (Z.of_N tps)) ->
  Forall (item_time_ok e (Z.of_N tps)) l -> resolve_all e tps (map (conv_item e tps) l) = Some l.
Proof.
  intros He1 He2 Hen H. induction H as [|it l Hit _ IH]; cbn [map resolve_all]; [reflexivity|].
  rewrite (resolve_conv e tps it He1 He2 Hen Hit), IH. reflexivity.
Qed.

(* ---------- address events ---------- *)
Lemma aec_merge_fresh acc k c : ~ In k (map fst acc) -> aec_merge acc k c = acc ++ [(k, c)].
Proof.
  induction acc as [|[k' c'] acc IH]; intros Hn; cbn [aec_merge app]; [reflexivity|].
  cbn [map fst In] in Hn. assert (val_eqb k' k = false) as -> by (apply val_eqb_neq; tauto). rewrite IH by tauto. reflexivity.
Qed.
Lemma aec_fold l : forall acc, Forall (fun kc => aec_shape (fst kc)) l -> NoDup (map fst acc ++ map fst l) ->
  fold_left (fun acc a => let '(k, c) := aec_key a in aec_merge acc k c) (map aec_val l) acc = acc ++ l.
Proof.
  induction l as [|[k c] l IH]; intros acc Hs Hn; cbn [map fold_left]; [rewrite app_nil_r; reflexivity|].
  inversion Hs as [|? ? Hk Hs']; subst. destruct Hk as (a & b & c0 & d & Hk). cbn [fst] in Hk. subst k.
  cbn [aec_val fst snd aec_key]. cbn [map fst] in Hn.
  assert (Hni : ~ In (VR [a; b; c0; d; Some (VN 0)]) (map fst acc)).
  { apply NoDup_remove_2 in Hn. intros Hi. apply Hn. apply in_or_app. left. exact Hi. }
  rewrite aec_merge_fresh by exact Hni. rewrite IH; auto.
  - rewrite <- app_assoc. reflexivity.
  - rewrite map_app. cbn [map fst]. rewrite <- app_assoc. exact Hn.
Qed.

(* ---------- tables ---------- *)
Lemma tables_roundtrip tb : tables_of_tbs (match tables_val tb with Some (VR l) => l | _ => [] end) = tb.
Proof.
  destruct tb as [a b c d e f g h i]. unfold tables_val. cbn [t_ip t_ct t_nr t_sig t_qlist t_qrr t_rrlist t_rr t_mmd].
  destruct a, b, c, d, e, f, g, h, i; reflexivity.
Qed.

Definition blk_params_ok (ps : list val) (b : blk) : Prop :=
  b_bpi b < N.of_nat (length ps) /\ b_bp b = nth_bp ps (b_bpi b).

Theorem block_of_val_spec ps b : blk_params_ok ps b -> good_blk b ->
  block_of_val ps (blk_val b) = Ret (rb_of b) /\ blk_of_rb (rb_of b) = b.
Proof.
  intros [Hi Hbp] [(He1 & He2 & Hen & Hq & Hm) [Hs Hn]]. split.
  - unfold blk_val, block_of_val. destruct ps as [|p ps]; [cbn [length] in Hi; lia|].
    assert (N.of_nat (length (p :: ps)) <=? b_bpi b = false) as -> by lia.
    rewrite <- Hbp. rewrite (ts_of_val_ts_val _ He1 He2). unfold ne_list, lst.
    rewrite (resolve_all_conv _ _ _ He1 He2 Hen Hq), (resolve_all_conv _ _ _ He1 He2 Hen Hm).
    rewrite (aec_fold (b_aecs b) [] Hs Hn). reflexivity.
  - unfold blk_of_rb, rb_of. cbn [r_earliest r_bpi r_bp r_stats r_tables r_qrs r_aecs r_mms].
    rewrite (ts_of_val_ts_val _ He1 He2), tables_roundtrip. cbn [vn]. destruct b; reflexivity.
Qed.

(* ---------- the side conditions are invariants of every block built from admissible records ---------- *)
Definition good_time (tps : Z) (ov : option val) : Prop :=
  match ov with
  | None => True
  | Some tv => rate_ok tps /\ exists t, ts_of_val tv = Some t /\ normalised t tps /\ ts_ok t tps
  end.

Lemma build_qr_slot0 bp gr tb : exists rest, snd (build_qr bp gr tb) = bit (h_qr bp) 0 (nth_o gr 0%nat) :: rest.
Proof.
  unfold build_qr.
  repeat match goal with |- context [let '(_, _) := ?e in _] => destruct e end.
  cbn [snd]. eexists. reflexivity.
Qed.
Lemma build_mm_slot0 gm tb : exists rest, snd (build_mm gm tb) = nth_o gm 0%nat :: rest.
Proof.
  unfold build_mm.
  repeat match goal with |- context [let '(_, _) := ?e in _] => destruct e end.
  cbn [snd]. eexists. reflexivity.
Qed.

Lemma item_time_weaken e e' tps it : (instant e' tps <= instant e tps)%Z -> item_time_ok e tps it -> item_time_ok e' tps it.
Proof.
  intros Hle H. destruct it as [| | | | |[|[tv|] rest]]; auto. cbn [item_time_ok] in *.
  destruct H as (Hr & t & H1 & H2 & H3 & H4). split; auto. exists t. repeat split; auto; try apply H2; try apply H3. lia.
Qed.

(* the earliest-time rule keeps: earliest <= every stored time; and the submitted time, if stored, is >= the new earliest *)
Lemma upd_earliest_inv b ot : time_inv b -> good_time (tps_of b) ot ->
  let e' := upd_earliest b ot in
  (0 <= secs e')%Z /\ (0 <= ticks e')%Z /\ (rate_ok (tps_of b) -> normalised e' (tps_of b) /\ ts_ok e' (tps_of b)) /\
  Forall (item_time_ok e' (tps_of b)) (b_qrs b) /\ Forall (item_time_ok e' (tps_of b)) (b_mms b) /\
  (forall rest, item_time_ok e' (tps_of b) (VR (ot :: rest))).
Proof.
  intros (He1 & He2 & Hen & Hq & Hm) Hg. unfold upd_earliest. destruct ot as [tv|].
  2:{ split; [assumption|]. split; [assumption|]. split; [assumption|]. split; [assumption|]. split; [assumption|]. intros rest. exact I. }
  cbn [good_time] in Hg. destruct Hg as (Hr & t & Ht & Hn & Hok). rewrite Ht. destruct (Hen Hr) as [Hne Hoke].
  assert (Hself : forall e0, (instant e0 (tps_of b) <= instant t (tps_of b))%Z -> forall rest, item_time_ok e0 (tps_of b) (VR (Some tv :: rest))).
  { intros e0 Hle rest. cbn [item_time_ok]. split; auto. exists t. auto. }
  assert (Hnt : normalised t (tps_of b)) by exact Hn.
  destruct (match b_qrs b, b_mms b with [], [] => true | _, _ => false end) eqn:First; cbn [orb].
  - assert (b_qrs b = [] /\ b_mms b = []) as [E1 E2] by (destruct (b_qrs b), (b_mms b); try discriminate; auto).
    rewrite E1, E2. destruct Hn as [Hn1 Hn2].
    split; [lia|]. split; [lia|]. split; [intros _; split; assumption|]. split; [constructor|]. split; [constructor|].
    apply Hself. lia.
  - rewrite (compare_lt t (b_earliest b) (tps_of b) Hn Hne). destruct (instant t (tps_of b) <? instant (b_earliest b) (tps_of b))%Z eqn:Lt.
    + destruct Hn as [Hn1 Hn2].
      split; [lia|]. split; [lia|]. split; [intros _; split; assumption|]. split; [|split].
      * eapply Forall_impl; [|exact Hq]. intros it. apply item_time_weaken. lia.
      * eapply Forall_impl; [|exact Hm]. intros it. apply item_time_weaken. lia.
      * apply Hself. lia.
    + split; [assumption|]. split; [assumption|]. split; [assumption|]. split; [assumption|]. split; [assumption|]. apply Hself. lia.
Qed.

Lemma bit_cases h i (ov : option val) : bit h i ov = ov \/ bit h i ov = None.
Proof. unfold bit. destruct (N.testbit h i); auto. Qed.

Lemma add_qr_good gr st b : good_blk b -> good_time (tps_of b) (nth_o gr 0%nat) -> good_blk (fst (add_qr gr st b)).
Proof.
  intros [Ht Ha] Hg. pose proof (upd_earliest_inv b _ Ht Hg) as (H1 & H2 & H3 & H4 & H5 & H6).
  unfold add_qr. destruct (build_qr_slot0 (b_bp b) gr (b_tb b)) as [rest Hs].
  destruct (build_qr (b_bp b) gr (b_tb b)) as [tb item]. cbn [fst snd] in *. subst item.
  split; [|exact Ha]. unfold time_inv, tps_of in *. cbn [b_earliest b_bp b_qrs b_mms].
  split; [exact H1|]. split; [exact H2|]. split; [exact H3|]. split; [|exact H5].
  destruct (filled _); auto. apply Forall_app. split; auto. constructor; [|constructor].
  destruct (bit_cases (h_qr (b_bp b)) 0 (nth_o gr 0%nat)) as [-> | ->]; [apply H6|exact I].
Qed.
Lemma add_mm_good gm st b : good_blk b -> good_time (tps_of b) (nth_o gm 0%nat) -> good_blk (fst (add_mm gm st b)).
Proof.
  intros [Ht Ha] Hg. unfold add_mm. destruct (negb _); [split; auto|].
  pose proof (upd_earliest_inv b _ Ht Hg) as (H1 & H2 & H3 & H4 & H5 & H6).
  destruct (build_mm_slot0 gm (b_tb b)) as [rest Hs].
  destruct (build_mm gm (b_tb b)) as [tb item]. cbn [fst snd] in *. subst item.
  split; [|exact Ha]. unfold time_inv, tps_of in *. cbn [b_earliest b_bp b_qrs b_mms].
  split; [exact H1|]. split; [exact H2|]. split; [exact H3|]. split; [exact H4|].
  destruct (filled _); auto. apply Forall_app. split; auto.
Qed.

Lemma aec_bump_keys l k : map fst (aec_bump l k) = if existsb (fun k' => val_eqb k' k) (map fst l) then map fst l else map fst l ++ [k].
Proof.
  induction l as [|[k' c] l IH]; cbn [aec_bump map fst existsb]; [reflexivity|].
  destruct (val_eqb k' k); cbn [orb map fst]; [reflexivity|]. rewrite IH. destruct (existsb _ _); reflexivity.
Qed.
Lemma aec_bump_inv l k : aec_shape k -> aec_inv l -> aec_inv (aec_bump l k).
Proof.
  intros Hk [Hs Hn]. split.
  - clear Hn. induction l as [|[k' c] l IH]; cbn [aec_bump]; [constructor; auto|].
    inversion Hs; subst. destruct (val_eqb k' k); constructor; auto.
  - rewrite aec_bump_keys. destruct (existsb _ _) eqn:E; auto.
    assert (Hni : ~ In k (map fst l)).
    { intros Hi. assert (existsb (fun k' => val_eqb k' k) (map fst l) = true); [|congruence].
      apply existsb_exists. exists k. split; auto. apply val_eqb_refl. }
    clear E Hs. induction (map fst l) as [|x r IH]; cbn [app]; [constructor; [intros []|constructor]|].
    inversion Hn; subst. constructor.
    + intros Hi. apply in_app_or in Hi. destruct Hi as [Hi|[->|[]]]; [contradiction|]. apply Hni. left. reflexivity.
    + apply IH; auto. intros Hi. apply Hni. right. exact Hi.
Qed.
Lemma add_aec_good ga st b : good_blk b -> good_blk (fst (add_aec ga st b)).
Proof.
  intros [Ht Ha]. unfold add_aec. destruct (negb _); [split; auto|].
  destruct (add_to (b_tb b) T_ip (oval (nth_o ga 3%nat))) as [tb ix]. cbn [fst]. split.
  - exact Ht.
  - cbn [b_aecs]. apply aec_bump_inv; auto. unfold aec_shape. eauto.
Qed.

Lemma empty_good e_bp bpi st : good_blk (mkBlk ts0 bpi e_bp st tables_empty [] [] []).
Proof.
  split; [|split; constructor]. unfold time_inv, tps_of, ts0. cbn [b_earliest b_bp b_qrs b_mms secs ticks].
  repeat split; try lia; try constructor; unfold rate_ok, instant, M63 in *; cbn [secs ticks]; lia.
Qed.

Definition good_inv (x : exporter) : Prop := Forall good_blk (x_blk x :: x_done x).
Definition adm1_time (x : exporter) (o : xop) : Prop :=
  match o with
  | XQr gr _ => good_time (tps_of (x_blk x)) (nth_o gr 0%nat)
  | XMm gm _ => good_time (tps_of (x_blk x)) (nth_o gm 0%nat)
  | _ => True
  end.

Lemma write_block_good x : good_inv x -> good_inv (fst (write_block x)).
Proof.
  intros H. unfold good_inv in *. pose proof (write_block_fields x) as (Hd & _).
  inversion H as [|? ? Hb Hdn]; subst. constructor.
  - unfold write_block. destruct (write_block_ext x (x_blk x)) as [x1 r]. unfold blk_set_bp. rewrite item_count_clear.
    cbn [N.ltb N.compare fst x_blk with_blk blk_clear b_earliest b_stats b_tb b_qrs b_aecs b_mms]. apply empty_good.
  - rewrite Hd. destruct (item_count (x_blk x) =? 0); auto. apply Forall_app. split; auto.
Qed.
Lemma buffer_good add x : good_inv x -> good_blk (fst (add (x_blk x))) -> good_inv (fst (buffer add x)).
Proof.
  intros H Hb. unfold buffer. destruct (add (x_blk x)) as [b' f]. cbn [fst] in Hb.
  assert (H1 : good_inv (with_blk x b')) by (unfold good_inv in *; cbn [with_blk x_blk x_done]; inversion H; subst; constructor; auto).
  destruct f; [apply write_block_good; auto|exact H1].
Qed.
Theorem xstep_good x o : good_inv x -> adm1_time x o -> good_inv (fst (xstep x o)).
Proof.
  intros H A. pose proof (Forall_inv H) as Hb. destruct o as [gr st|ga st|gm st| |e|bp|i]; cbn [xstep adm1_time] in *.
  - apply buffer_good; auto. apply add_qr_good; auto.
  - apply buffer_good; auto. apply add_aec_good; auto.
  - apply buffer_good; auto. apply add_mm_good; auto.
  - apply write_block_good; auto.
  - unfold rotate. destruct e.
    + pose proof (write_block_good x H) as H1. destruct (write_block x) as [x1 r1]. destruct (if 0 <? x_written x1 then _ else _). exact H1.
    + destruct (if 0 <? x_written x then _ else _). exact H.
  - exact H.
  - unfold set_active. destruct (_ <=? _); exact H.
Qed.
Lemma x_new_good pre : good_inv (x_new pre).
Proof.
  unfold x_new, good_inv, blk_new.
  destruct pre as [| | | | |[|ma [|mi [|pv [|[[| | | |ps|]|] [|? ?]]]]]]; cbn [x_blk x_done]; (constructor; [apply empty_good|constructor]).
Qed.
