(* Properties_C11.v — C11: block tables de-duplicate, keep indices stable and stay referentially closed.
   A table is the list of its entries in insertion order; [tadd] is BlockTable::add (find by operator==, else append).
   Only statements live here. *)
Require Import Base Cbor Schema Block BlockProofs Exporter ExporterProofs.
Local Open Scope N_scope.

(* the equality the tables use is equality of values *)
Theorem C11_equality : forall a b, val_eqb a b = true <-> a = b.
Proof. exact val_eqb_eq. Qed.
Print Assumptions C11_equality.

(* adding a value returns the index of an entry equal to that value *)
Theorem C11_add_get : forall t v, nth_error (fst (tadd t v)) (N.to_nat (snd (tadd t v))) = Some v.
Proof. exact tadd_get. Qed.
Print Assumptions C11_add_get.

(* adding an equal value again returns the same index and does not grow the table *)
Theorem C11_idempotent : forall t v, let '(t', ix) := tadd t v in tadd t' v = (t', ix).
Proof. exact tadd_idempotent. Qed.
Print Assumptions C11_idempotent.

(* no table ever contains two equal entries: invariant of every add history from the empty table *)
Theorem C11_nodup : forall vs, NoDup (fold_left (fun t v => fst (tadd t v)) vs []).
Proof.
  intros vs. assert (H : forall t, NoDup t -> NoDup (fold_left (fun t v => fst (tadd t v)) vs t)).
  { induction vs as [|v vs IH]; intros t Hn; cbn [fold_left]; auto. apply IH. apply tadd_nodup. exact Hn. }
  apply H. constructor.
Qed.
Print Assumptions C11_nodup.

(* distinct values get distinct indices (an index determines its value) *)
Theorem C11_injective : forall (t : list val) i j a, NoDup t -> nth_error t i = Some a -> nth_error t j = Some a -> i = j.
Proof. exact nodup_index_injective. Qed.
Print Assumptions C11_injective.

(* indices stay valid and keep denoting the same value: a table only grows at its end *)
Theorem C11_stable : forall t v k a, nth_error t k = Some a -> nth_error (fst (tadd t v)) k = Some a.
Proof.
  intros t v k a H. destruct (tadd_prefix t v) as [suf ->]. rewrite nth_error_app1; auto. apply nth_error_Some. congruence.
Qed.
Print Assumptions C11_stable.

(* the index handed out refers to an existing entry *)
Theorem C11_index_in_range : forall t v, snd (tadd t v) < N.of_nat (length (fst (tadd t v))).
Proof. exact tadd_index_lt. Qed.
Print Assumptions C11_index_in_range.

(* whole blocks: building the item of any generic query/response or malformed message only ever extends the nine
   tables at their ends and keeps every one of them duplicate-free; so an index stored in an item or in another
   table entry (signature -> address, RR -> name, list -> RR ...) keeps addressing the entry it was given for *)
Theorem C11_build_qr : forall bp gr tb, tb_good tb (fst (build_qr bp gr tb)).
Proof. exact build_qr_good. Qed.
Print Assumptions C11_build_qr.
Theorem C11_build_mm : forall gm tb, tb_good tb (fst (build_mm gm tb)).
Proof. exact build_mm_good. Qed.
Print Assumptions C11_build_mm.
Theorem C11_reference_survives : forall tb tb' i v k, tb_ext tb tb' ->
  nth_error (tget tb i) k = Some v -> nth_error (tget tb' i) k = Some v.
Proof. intros tb tb' i v k He Hk. eapply ext_keeps; eauto. Qed.
Print Assumptions C11_reference_survives.

(* over every exporter history the tables of the block being filled are duplicate-free, and after a block is
   written and cleared nothing of its tables or items is visible in the next one *)
Theorem C11_history : forall pre ops, tb_inv (xrun (x_new pre) ops).
Proof.
  intros pre ops. assert (H : forall x, tb_inv x -> tb_inv (xrun x ops)).
  { induction ops as [|o ops IH]; intros x Hx; cbn [xrun fold_left]; auto. apply IH. apply xstep_tb. exact Hx. }
  apply H. unfold tb_inv, x_new.
  destruct pre as [| | | | |[|ma [|mi [|pv [|[[| | | |ps|]|] [|? ?]]]]]]; apply tables_empty_nodup.
Qed.
Print Assumptions C11_history.
Theorem C11_clear : forall x, let b := x_blk (fst (write_block x)) in
  b_tb b = tables_empty /\ b_qrs b = [] /\ b_aecs b = [] /\ b_mms b = [].
Proof. intros x. pose proof (write_block_fields x) as (_ & _ & H1 & H2 & H3 & H4). repeat split; assumption. Qed.
Print Assumptions C11_clear.

Example C11_nonvacuous :
  let t1 := fst (tadd [] (VS [1; 2])) in let t2 := fst (tadd t1 (VS [3])) in
  tadd t2 (VS [1; 2]) = (t2, 0) /\ tadd t2 (VS [3]) = (t2, 1) /\ snd (tadd t2 (VS [])) = 2 /\ NoDup t2.
Proof. cbn. repeat split. repeat constructor; cbn; intuition discriminate. Qed.
