(* Properties_C03.v — C03: reading untrusted bytes is memory-safe, bounded and fails only by exception (PARTIAL).
   What a functional model can carry is proved for EVERY byte sequence: the decoder never reads outside its window, never asks
   for an allocation sized by a length field, signed arithmetic on values taken from the input is never undefined, table and
   parameter indices are checked, the name renderer never indexes outside its string.  What lives in the compiled C++ (object
   lifetimes, container internals, the real stack) is observed by the sanitizer runs of the correspondence, not proved.
   Only statements here. *)
Require Import Base Cbor DecoderModel DecoderProofs Schema SchemaProofs Timestamp TimestampProofs Block Exporter Render.
Local Open Scope N_scope.

(* the window: for every decoder program, every input and stream state, the physical decoder keeps m_p <= m_end within the buffer
   and only ever returns bytes of the logical input (C05_refine): it never reads or fabricates anything outside its buffer *)
Theorem C03_window : forall (B : N) (A : Type) (p : prog A) (s : phys), 0 < B -> phys_inv B s ->
  phys_inv B (snd (run_phys B p s)) /\ exists c, logical s = c ++ logical (snd (run_phys B p s)).
Proof.
  intros B A p s HB Hi. pose proof (phys_refines B HB p s Hi) as H. destruct (run_phys B p s) as [res s']. destruct H as [Hr Hi'].
  split; [exact Hi'|]. cbn [snd]. eapply run_suffix. exact Hr.
Qed.
Print Assumptions C03_window.

(* allocations: whatever the input says about lengths (up to 2^64-1), every reservation requested while reading any structure
   of the format, a whole block, or while skipping an arbitrary item, is capped by the decoder's window size *)
Theorem C03_alloc_bounded : forall g t inp, max_reserve (read_val g t) inp <= DEC_BUFFER_SIZE.
Proof. intros g t inp. apply rbounded_max. apply (proj1 (rb_read_val g)). Qed.
Print Assumptions C03_alloc_bounded.
Theorem C03_alloc_bounded_skip : forall g inp, max_reserve (skip_item g) inp <= DEC_BUFFER_SIZE.
Proof. intros g inp. apply rbounded_max. apply rb_skip. Qed.
Print Assumptions C03_alloc_bounded_skip.
Theorem C03_alloc_bounded_strings : forall g inp,
  max_reserve (read_bytestring g) inp <= DEC_BUFFER_SIZE /\ max_reserve (read_textstring g) inp <= DEC_BUFFER_SIZE.
Proof. intros g inp. split; apply rbounded_max; apply rb_read_xstring. Qed.
Print Assumptions C03_alloc_bounded_strings.

(* arithmetic: resolving a stored time offset never executes undefined signed arithmetic, for every 64-bit offset *)
Theorem C03_time_arith : forall t off tps, add_time_offset t off tps <> TUB.
Proof. exact add_never_ub. Qed.
Print Assumptions C03_time_arith.

(* indices taken from the input are checked: an index outside its table yields an error value (std::runtime_error), never a value *)
Theorem C03_index_checked : forall tbs i n, N.of_nat (length (lst (nth_o tbs i))) <= n -> tl_get tbs i (Some (VN n)) = None.
Proof.
  intros tbs i n H. unfold tl_get. rewrite nthN_spec. destruct (nth_error (lst (nth_o tbs i)) (N.to_nat n)) eqn:E; [|reflexivity].
  assert (nth_error (lst (nth_o tbs i)) (N.to_nat n) <> None) by congruence. apply nth_error_Some in H0. lia.
Qed.
Print Assumptions C03_index_checked.
Theorem C03_params_index_checked : forall params et bpi stats tbs qrs aecs mms i,
  bpi = Some (VN i) -> N.of_nat (length params) <= i ->
  block_of_val params (VR [Some (VR [Some et; bpi]); stats; tbs; qrs; aecs; mms]) = Throw EDec.
Proof.
  intros params et bpi stats tbs qrs aecs mms i -> Hi. unfold block_of_val. destruct params as [|p ps]; [reflexivity|].
  assert (N.of_nat (length (p :: ps)) <=? i = true) as -> by lia. reflexivity.
Qed.
Print Assumptions C03_params_index_checked.

(* the domain-name renderer: for every byte string the label walk stays inside the string and ends within |name| steps *)
Theorem C03_dname : forall d, readable_dname d <> DOOB /\ readable_dname d <> DFuel.
Proof. exact readable_dname_safe. Qed.
Print Assumptions C03_dname.

(* linear work on the inputs the property is about to accept: skipping (the only unbounded recursion of the decoder) needs fuel
   no larger than the number of bytes of the item (C07_skip); every other loop consumes at least one byte per iteration *)
Theorem C03_fuel_partial : forall x g rest, wf x -> (length (ser x) <= g)%nat -> fst (run (skip_item g) (ser x ++ rest)) <> inr EFuel.
Proof. intros x g rest Hw Hg. rewrite skip_item_spec by auto. discriminate. Qed.
Print Assumptions C03_fuel_partial.

Example C03_nonvacuous :
  max_reserve (read_bytestring 20) [91; 0; 0; 0; 16; 0; 0; 0; 0; 1; 2] = DEC_BUFFER_SIZE /\
  fst (run (read_bytestring 20) [91; 0; 0; 0; 16; 0; 0; 0; 0; 1; 2]) = inr EEnd /\
  readable_dname [1] = DUnchanged /\ readable_dname [3; 119; 119; 119; 0] = DDone 1 [3; 119; 119; 119; 0].
Proof. vm_compute. repeat split. Qed.

(* what the reader makes of a map that repeats a key (invalid CBOR, but untrusted input): the real CdnsBlockRead never resets its item
   vectors and tables before reading them, so a repeated key APPENDS (also across a repeated block-tables map); everywhere else the last
   occurrence wins (the preamble's vectors are cleared first).  The model follows the code (Schema.upd_slot) - found by the thorough tier of
   this check, which compares the reader's results on mutated files *)
Example C03_repeated_keys_as_the_code :
  run (read_val 60 Block) [163; 0; 161; 0; 130; 0; 0; 5; 129; 160; 5; 129; 160] =
    (inl (VR [Some (VR [Some (VL [VN 0; VN 0]); None]); None; None; Some (VL []); Some (VL []);
              Some (VL [VR [None; None; None; None]; VR [None; None; None; None]])]), []) /\
  run (read_val 60 Block) [164; 0; 161; 0; 130; 0; 0; 2; 161; 0; 129; 65; 7;  2; 162; 0; 129; 65; 8; 0; 129; 65; 9; 2; 160] =
    (inl (VR [Some (VR [Some (VL [VN 0; VN 0]); None]); None;
              Some (VR [Some (VL [VS [7]; VS [8]; VS [9]]); Some (VL []); Some (VL []); Some (VL []); Some (VL []); Some (VL []); Some (VL []); Some (VL []); Some (VL [])]);
              Some (VL []); Some (VL []); Some (VL [])]), []) /\
  run (read_val 60 CollectionParameters) [162; 6; 129; 1; 6; 129; 2] =
    (inl (VR [None; None; None; None; Some (VL []); Some (VL []); Some (VL [VN 2]); None; None; None]), []).
Proof. vm_compute. repeat split. Qed.
