(* Timestamp.v — executable model of src/timestamp.{h,cpp}: CDNS::Timestamp arithmetic.
   Members m_secs, m_ticks are uint64_t (Z in [0, 2^64)); the 64-bit wrap of the unsigned product/sum, the
   reinterpretation as int64_t, and signed overflow (undefined behaviour) are explicit outcomes. *)
Require Import Base.
Local Open Scope Z_scope.

Definition M64 : Z := 18446744073709551616.
Definition M63 : Z := 9223372036854775808.
Definition I64MAX : Z := 9223372036854775807.

Definition wrapu (z : Z) : Z := z mod M64.                       (* uint64_t arithmetic *)
Definition to_i64 (z : Z) : Z := let w := z mod M64 in if w <? M63 then w else w - M64.   (* uint64 -> int64 *)
Definition in_i64 (z : Z) : bool := (- M63 <=? z) && (z <? M63).

Inductive tres (A : Type) := TOk (a : A) | TThrow | TUB.
Arguments TOk {A}. Arguments TThrow {A}. Arguments TUB {A}.

Record ts := mkTs { secs : Z; ticks : Z }.

(* int64_t ticks = (m_secs * ticks_per_second) + m_ticks; *)
Definition total_ticks (t : ts) (tps : Z) : Z := to_i64 (secs t * tps + ticks t).

(* int64_t Timestamp::get_time_offset(const Timestamp& reference, uint64_t ticks_per_second) *)
Definition get_time_offset (t ref : ts) (tps : Z) : tres Z :=
  if tps =? 0 then TThrow
  else
    let d := total_ticks t tps - total_ticks ref tps in
    if in_i64 d then TOk d else TUB.

(* void Timestamp::add_time_offset(int64_t offset, uint64_t ticks_per_second)
   if (ticks < 0 || (offset < 0 && ticks + offset < 0) || (offset > 0 && ticks > INT64_MAX - offset)) throw;
   ticks += offset; m_secs = ticks / tps; m_ticks = ticks % tps;   (unsigned division, ticks >= 0 here) *)
Definition add_time_offset (t : ts) (offset tps : Z) : tres ts :=
  if tps =? 0 then TThrow
  else
    let tk := total_ticks t tps in
    if (tk <? 0) || ((offset <? 0) && (tk + offset <? 0)) || ((0 <? offset) && (I64MAX - offset <? tk))
    then TThrow
    else let n := tk + offset in TOk (mkTs (n / tps) (n mod tps)).

(* operator< and operator<= *)
Definition ts_lt (a b : ts) : bool :=
  if secs a <? secs b then true else if (secs a =? secs b) && (ticks a <? ticks b) then true else false.
Definition ts_le (a b : ts) : bool :=
  if secs a <? secs b then true else if (secs a =? secs b) && (ticks a <=? ticks b) then true else false.

(* ---- earliest-time bookkeeping of CdnsBlock::add_question_response_record / add_malformed_message ----
   An event is one add call: the record's optional time, whether that time is stored in the item (hint bit set),
   and whether the item is pushed to its array ("filled").  [nitems] = m_query_responses.size() +
   m_malformed_messages.size(). *)
Record btime := mkBt { earliest : ts; nitems : nat; stored : list ts }.
Definition bt_init : btime := mkBt (mkTs 0 0) 0 [].
Record tev := mkEv { ev_ts : option ts; ev_store_time : bool; ev_filled : bool }.

Definition bt_add (b : btime) (e : tev) : btime :=
  let ear := match ev_ts e with
             | Some t => if (Nat.eqb (nitems b) 0) || ts_lt t (earliest b) then t else earliest b
             | None => earliest b
             end in
  let pushed := ev_filled e || (match ev_ts e with Some _ => ev_store_time e | None => false end) in
  mkBt ear
       (if pushed then S (nitems b) else nitems b)
       (match ev_ts e with Some t => if ev_store_time e then t :: stored b else stored b | None => stored b end).
