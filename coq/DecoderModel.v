(* DecoderModel.v — executable model of src/cdns_decoder.{h,cpp} (class CDNS::CdnsDecoder).
   Every public read operation is a program of the [prog] monad of Base.v, written with the control flow
   of the C++ (read_cbor_type, the additional-information guards, read_int's byte loop, read_string's
   definite / chunked loops, skip_item's work list).  Loops over input-controlled counts recurse on explicit
   fuel and yield [Throw EFuel] when it runs out; the theorems exclude that outcome by a fuel bound linear
   in the input length.  The second half models the physical side: the 65535-byte window refilled from a
   std::istream ([run_phys]).  No proofs here. *)
Require Import Base Cbor.
Local Open Scope N_scope.

Definition DEC_BUFFER_SIZE : N := 65535.     (* CdnsDecoder::BUFFER_SIZE *)

Definition major_of (b : N) : major :=
  let t := N.land b 224 in
  if t =? 0 then MU else if t =? 32 then MN else if t =? 64 then MB else if t =? 96 then MT
  else if t =? 128 then MA else if t =? 160 then MM else if t =? 192 then MTag else M7.

Definition major_eqb (a b : major) : bool := mcode a =? mcode b.

(* read_cbor_type(): read_to_buffer(); type = m_p[0] & 0xE0; additional = m_p[0] & 0x1F; m_p++ *)
Definition read_type : prog (major * N) := Next (fun b => Ret (major_of b, N.land b 31)).
(* peek_type(): BREAK (here None) for the byte 0xFF, the major type otherwise; nothing consumed *)
Definition peek_type : prog (option major) :=
  Peek (fun b => Ret (if b =? 255 then None else Some (major_of b))).

(* read_int(): big-endian accumulation of 1 << (ai - 24) bytes *)
Fixpoint read_be (k : nat) (acc : N) : prog N :=
  match k with O => Ret acc | S k' => Next (fun b => read_be k' (acc * 256 + b)) end.
Definition read_int (ai : N) : prog N :=
  if ai <=? 23 then Ret ai
  else if ai =? 24 then read_be 1 0 else if ai =? 25 then read_be 2 0
  else if ai =? 26 then read_be 4 0 else if ai =? 27 then read_be 8 0
  else Ret 0.

(* uint64 -> int64 conversion (two's complement) *)
Definition to_i64 (u : N) : Z := if u <? two63 then Z.of_N u else (Z.of_N u - Z.of_N two64)%Z.
(* read_integer / read_negative return int64_t: a CBOR integer outside that range is CLAMPED (it used to wrap around: an unknown map key
   2^64-1 was taken for key -1, -2^64 for key 0 - defect F15, repaired) *)
Definition clamp_i64 (u : N) : Z := if u <? two63 then Z.of_N u else (Z.of_N two63 - 1)%Z.
Definition neg_of (v : N) : Z := if v <? two63 then (-1 - Z.of_N v)%Z else (- Z.of_N two63)%Z.

Definition bad_ai (ai : N) : bool := (28 <=? ai) && (ai <=? 30).

Definition read_unsigned : prog N :=
  ta <- read_type ;;
  match fst ta with
  | MU => if 28 <=? snd ta then Throw EDec else read_int (snd ta)
  | _ => Throw EDec
  end.

Definition read_negative : prog Z :=
  ta <- read_type ;;
  match fst ta with
  | MN => if 28 <=? snd ta then Throw EDec else v <- read_int (snd ta) ;; Ret (neg_of v)
  | _ => Throw EDec
  end.

Definition read_integer : prog Z :=
  pk <- peek_type ;;
  match pk with
  | Some MU => v <- read_unsigned ;; Ret (clamp_i64 v)
  | Some MN => read_negative
  | _ => Throw EDec
  end.

Definition read_bool : prog bool :=
  ta <- read_type ;;
  match fst ta with
  | M7 => if (snd ta =? 20) || (snd ta =? 21) then Ret (snd ta =? 21) else Throw EDec
  | MU => if 28 <=? snd ta then Throw EDec else v <- read_int (snd ta) ;; Ret (negb (v =? 0))
  | _ => Throw EDec
  end.

Definition read_break : prog unit :=
  ta <- read_type ;;
  match fst ta with
  | M7 => if snd ta =? 31 then Ret tt else Throw EDec
  | _ => Throw EDec
  end.

(* for (uint64_t i = 0; i < length; i++) { read_to_buffer(); ret.push_back(m_p[0]); m_p++; }
   [racc] is the string built so far, newest byte first *)
Fixpoint read_bytes (g : nat) (n : N) (racc : list N) : prog (list N) :=
  if n =? 0 then Ret racc else
  match g with
  | O => Throw EFuel
  | S g' => Next (fun b => read_bytes g' (n - 1) (b :: racc))
  end.

Definition reserve_req (n : N) : N := N.min n DEC_BUFFER_SIZE.

(* the chunk loop of read_string(): while (peek_type() != BREAK) { chunk head; checks; bytes }  read_break() *)
Fixpoint read_chunks (m : major) (g : nat) (fuel : nat) (racc : list N) : prog (list N) :=
  match fuel with
  | O => Throw EFuel
  | S fuel' =>
    pk <- peek_type ;;
    match pk with
    | None => read_break ;;; Ret racc
    | Some _ =>
      ta <- read_type ;;
      if negb (major_eqb (fst ta) m) then Throw EDec
      else if snd ta =? 31 then Throw EDec
      else len <- read_int (snd ta) ;;
           Reserve (reserve_req len) (racc' <- read_bytes g len racc ;; read_chunks m g fuel' racc')
    end
  end.

Definition read_string (m : major) (g : nat) (length : N) (indef : bool) : prog (list N) :=
  if indef then racc <- read_chunks m g g [] ;; Ret (frev racc)
  else Reserve (reserve_req length) (racc <- read_bytes g length [] ;; Ret (frev racc)).

Definition read_xstring (m : major) (g : nat) : prog (list N) :=
  ta <- read_type ;;
  if negb (major_eqb (fst ta) m) then Throw EDec
  else if bad_ai (snd ta) then Throw EDec
  else len <- read_int (snd ta) ;; read_string m g len (snd ta =? 31).
Definition read_bytestring := read_xstring MB.
Definition read_textstring := read_xstring MT.

(* read_array_start / read_map_start: (length, indef) *)
Definition read_xstart (m : major) : prog (N * bool) :=
  ta <- read_type ;;
  if negb (major_eqb (fst ta) m) then Throw EDec
  else if bad_ai (snd ta) then Throw EDec
  else if snd ta =? 31 then Ret (0, true)
  else n <- read_int (snd ta) ;; Ret (n, false).
Definition read_array_start := read_xstart MA.
Definition read_map_start := read_xstart MM.

(* skip_item(): containers still being skipped are kept on a work list in the C++; the recursive form
   below visits the same heads in the same order and throws at the same points *)
Section Loops.
  Variable sk : prog unit.
  Fixpoint loop_n (g : nat) (n : N) : prog unit :=
    if n =? 0 then Ret tt else
    match g with O => Throw EFuel | S g' => sk ;;; loop_n g' (n - 1) end.
  Fixpoint loop_indef (g : nat) : prog unit :=
    match g with
    | O => Throw EFuel
    | S g' => pk <- peek_type ;;
              match pk with
              | None => Next (fun _ => Ret tt)
              | Some _ => sk ;;; loop_indef g'
              end
    end.
End Loops.

Fixpoint skip (g : nat) (f : nat) : prog unit :=
  match f with
  | O => Throw EFuel
  | S f' =>
    ta <- read_type ;;
    let ai := snd ta in
    match fst ta with
    | MU | MN => if 28 <=? ai then Throw EDec else read_int ai ;;; Ret tt
    | MTag => if 28 <=? ai then Throw EDec else read_int ai ;;; skip g f'
    | M7 => if bad_ai ai then Throw EDec else read_int ai ;;; Ret tt
    | MB | MT => if bad_ai ai then Throw EDec
                 else n <- read_int ai ;; read_string (fst ta) g n (ai =? 31) ;;; Ret tt
    | MA => if bad_ai ai then Throw EDec
            else if ai =? 31 then loop_indef (skip g f') g
            else n <- read_int ai ;; loop_n (skip g f') g n
    | MM => if bad_ai ai then Throw EDec
            else if ai =? 31 then loop_indef (skip g f') g
            else n <- read_int ai ;; loop_n (skip g f') g (2 * n)
    end
  end.
Definition skip_item (g : nat) : prog unit := skip g g.

(* ------------------------------------------------------------------------------------------------
   Physical side: m_buffer[m_p .. m_end) = [win]; the bytes the istream has not delivered yet = [rest];
   [eof] = the stream's eofbit.  read_to_buffer(): if (m_p == m_end) { if (eof()) throw End;
   read(BUFFER_SIZE); m_p = m_buffer; m_end = m_buffer + gcount(); if (m_p == m_end) throw End; }
   An istream::read that delivers fewer bytes than asked sets eofbit.  A stream that cannot be read
   (unopened file) is [rest = []]. *)
Record phys := mkPhys { win : list N; rest : list N; eof : bool }.

Section Phys.
  Variable B : N.    (* buffer size *)

  Definition ended (s : phys) : phys := mkPhys [] (rest s) true.

  Definition refill (s : phys) : option phys :=
    if eof s then None else
    let chunk := firstn (N.to_nat B) (rest s) in
    match chunk with
    | [] => None
    | _ => Some (mkPhys chunk (skipn (N.to_nat B) (rest s)) (N.of_nat (length chunk) <? B))
    end.

  (* window after read_to_buffer(), or None when it throws CdnsDecoderEnd *)
  Definition ensure (s : phys) : option phys :=
    match win s with [] => refill s | _ => Some s end.

  Fixpoint run_phys {A} (p : prog A) (s : phys) : (A + err) * phys :=
    match p with
    | Ret a => (inl a, s)
    | Throw e => (inr e, s)
    | Next k =>
        match ensure s with
        | None => (inr EEnd, ended s)
        | Some s' => match win s' with
                     | [] => (inr EEnd, ended s')
                     | b :: w => run_phys (k b) (mkPhys w (rest s') (eof s'))
                     end
        end
    | Peek k =>
        match ensure s with
        | None => (inr EEnd, ended s)
        | Some s' => match win s' with
                     | [] => (inr EEnd, ended s')
                     | b :: _ => run_phys (k b) s'
                     end
        end
    | Reserve _ k => run_phys k s
    end.

  Definition logical (s : phys) : list N := win s ++ rest s.
  Definition phys_inv (s : phys) : Prop :=
    (eof s = true -> rest s = []) /\ N.of_nat (length (win s)) <= B.
  Definition phys_init (input : list N) : phys := mkPhys [] input false.
End Phys.
