(* AecView.v — the decoded view of the address-event counts: for every decoded key (type, code, transport flags, address)
   the total count over all blocks written and the block being filled grows by exactly one per accepted buffer_aec call with
   that key, and by nothing else — over every API history. *)
Require Import Base Cbor EncoderModel DecoderModel Schema Timestamp Block BlockProofs Exporter ExporterProofs E2ESpec BlockDecode ViewProofs.
Local Open Scope N_scope.

Definition blk_view_aec (b : blk) : list (option val) := map (gen_aec (tbs_of_tables (b_tb b))) (b_aecs b).
Definition view_aec_total (x : exporter) (k : list (option val)) : N :=
  fold_right (fun b a => dec_total k (blk_view_aec b) + a) 0 (x_done x) + dec_total k (blk_view_aec (x_blk x)).

(* entry (raw key, count) decodes to the record of generic event ga with that count, in tb and every extension *)
Definition aec_P (tb : tables) (kc : val * N) (ga : list (option val)) : Prop :=
  forall tb' c, tb_ext tb tb' -> gen_aec (tbs_of_tables tb') (fst kc, c) = Some (exp_aec ga c).
Definition aec_den (b : blk) (gas : list (list (option val))) : Prop := Forall2 (aec_P (b_tb b)) (b_aecs b) gas.
Fixpoint den_total (k : list (option val)) (l : list (val * N)) (gas : list (list (option val))) : N :=
  match l, gas with
  | (_, c) :: l', ga :: gas' => (if okey_eqb (dkey ga) k then c else 0) + den_total k l' gas'
  | _, _ => 0
  end.

Lemma den_view tb l gas k : Forall2 (aec_P tb) l gas -> dec_total k (map (gen_aec (tbs_of_tables tb)) l) = den_total k l gas.
Proof.
  induction 1 as [|[kr c] ga l gas Hp _ IH]; cbn [map dec_total fold_right den_total]; [reflexivity|].
  fold (dec_total k (map (gen_aec (tbs_of_tables tb)) l)). rewrite IH. f_equal.
  specialize (Hp tb c (tb_ext_refl tb)). cbn [fst] in Hp. rewrite Hp. reflexivity.
Qed.

Lemma aec_P_ext tb tb1 kc ga : tb_ext tb tb1 -> aec_P tb kc ga -> aec_P tb1 kc ga.
Proof. intros He H tb' c He'. apply H. eapply tb_ext_trans; eauto. Qed.
Lemma aec_den_ext tb tb1 l gas : tb_ext tb tb1 -> Forall2 (aec_P tb) l gas -> Forall2 (aec_P tb1) l gas.
Proof. intros He H. induction H; constructor; auto. eapply aec_P_ext; eauto. Qed.

Lemma exp_aec_dkey ga ga' c : exp_aec ga c = exp_aec ga' c -> dkey ga = dkey ga'.
Proof. unfold exp_aec, dkey. intros H. inversion H. reflexivity. Qed.

Lemma bump_den tb1 raw ga : aec_P tb1 (raw, 0) ga -> forall l gas, Forall2 (aec_P tb1) l gas ->
  exists gas', Forall2 (aec_P tb1) (aec_bump l raw) gas' /\
               forall k, den_total k (aec_bump l raw) gas' = den_total k l gas + (if okey_eqb (dkey ga) k then 1 else 0).
Proof.
  intros Hraw l gas H. induction H as [|[kr c] ga0 l gas Hp Hl IH]; cbn [aec_bump].
  - exists [ga]. split; [constructor; [|constructor]; intros tb' c He; apply (Hraw tb' c He)|]. intros k. cbn [den_total]. lia.
  - destruct (val_eqb kr raw) eqn:E.
    + apply val_eqb_eq in E. subst kr. exists (ga0 :: gas). split; [constructor; auto; intros tb' c' He; apply (Hp tb' c' He)|].
      intros k. cbn [den_total].
      assert (Hk : dkey ga0 = dkey ga).
      { pose proof (Hp tb1 0 (tb_ext_refl tb1)) as A. pose proof (Hraw tb1 0 (tb_ext_refl tb1)) as B. cbn [fst] in A, B.
        rewrite A in B. apply (exp_aec_dkey _ _ 0). congruence. }
      rewrite Hk. destruct (okey_eqb (dkey ga) k); lia.
    + destruct IH as (gas' & F' & T'). exists (ga0 :: gas'). split; [constructor; auto|]. intros k. cbn [den_total]. rewrite T'. lia.
Qed.

Definition aec_inv2 (x : exporter) : Prop := exists gas, aec_den (x_blk x) gas.

Lemma add_aec_den ga st b gas : aec_den b gas ->
  exists gas', aec_den (fst (add_aec ga st b)) gas' /\
    forall k, den_total k (b_aecs (fst (add_aec ga st b))) gas' = den_total k (b_aecs b) gas + new_aec (b_bp b) ga k.
Proof.
  intros H. unfold add_aec, new_aec. destruct (N.testbit (h_other (b_bp b)) 1); cbn [negb].
  2:{ exists gas. split; auto. intros k. cbn [fst]. lia. }
  pose proof (add_to_good (b_tb b) T_ip (oval (nth_o ga 3%nat))) as [_ He].
  pose proof (gen_aec_key ga (b_tb b)) as Hk.
  destruct (add_to (b_tb b) T_ip (oval (nth_o ga 3%nat))) as [tb1 ix]. cbn [fst snd] in *.
  set (raw := VR [nth_o ga 0%nat; nth_o ga 1%nat; Some (VN ix); nth_o ga 2%nat; Some (VN 0)]).
  assert (Hraw : aec_P tb1 (raw, 0) ga) by (intros tb' c He'; cbn [fst]; apply Hk; exact He').
  destruct (bump_den tb1 raw ga Hraw (b_aecs b) gas (aec_den_ext _ _ _ _ He H)) as (gas' & F' & T').
  exists gas'. split; [exact F'|]. intros k. cbn [b_aecs]. apply T'.
Qed.
Lemma add_qr_aec_den gr st b gas : aec_den b gas -> aec_den (fst (add_qr gr st b)) gas /\ b_aecs (fst (add_qr gr st b)) = b_aecs b.
Proof.
  intros H. unfold add_qr. pose proof (build_qr_good (b_bp b) gr (b_tb b)) as [_ He].
  destruct (build_qr (b_bp b) gr (b_tb b)) as [tb1 item]. cbn [fst] in *. split; [|reflexivity]. unfold aec_den. cbn [b_tb b_aecs]. eapply aec_den_ext; eauto.
Qed.
Lemma add_mm_aec_den gm st b gas : aec_den b gas -> aec_den (fst (add_mm gm st b)) gas /\ b_aecs (fst (add_mm gm st b)) = b_aecs b.
Proof.
  intros H. unfold add_mm. destruct (negb _); [split; auto|]. pose proof (build_mm_good gm (b_tb b)) as [_ He].
  destruct (build_mm gm (b_tb b)) as [tb1 item]. cbn [fst] in *. split; [|reflexivity]. unfold aec_den. cbn [b_tb b_aecs]. eapply aec_den_ext; eauto.
Qed.

Definition done_total (x : exporter) (k : list (option val)) : N := fold_right (fun b a => dec_total k (blk_view_aec b) + a) 0 (x_done x).
Lemma fold_total_app k l1 l2 : fold_right (fun b a => dec_total k (blk_view_aec b) + a) 0 (l1 ++ l2) =
  fold_right (fun b a => dec_total k (blk_view_aec b) + a) 0 l1 + fold_right (fun b a => dec_total k (blk_view_aec b) + a) 0 l2.
Proof. induction l1 as [|b l1 IH]; cbn [app fold_right]; [lia|]. rewrite IH. lia. Qed.

Lemma write_block_aec x k : view_aec_total (fst (write_block x)) k = view_aec_total x k /\ aec_inv2 (fst (write_block x)).
Proof.
  pose proof (write_block_fields x) as (Hd & _ & _ & Ha & _ & Ht).
  unfold view_aec_total, aec_inv2, aec_den, blk_view_aec. rewrite Hd, Ha. cbn [map dec_total fold_right].
  split; [|exists []; constructor].
  destruct (item_count (x_blk x) =? 0) eqn:E.
  - apply N.eqb_eq in E. apply item_count_0 in E. destruct E as (_ & E2 & _). rewrite E2. cbn [map dec_total fold_right]. lia.
  - rewrite fold_total_app. cbn [fold_right]. unfold blk_view_aec. lia.
Qed.

Lemma buffer_aec_view add x k gas' : aec_den (fst (add (x_blk x))) gas' ->
  view_aec_total (fst (buffer add x)) k = done_total x k + den_total k (b_aecs (fst (add (x_blk x)))) gas' /\ aec_inv2 (fst (buffer add x)).
Proof.
  intros H. unfold buffer. destruct (add (x_blk x)) as [b' f]. cbn [fst] in *. destruct f.
  - destruct (write_block_aec (with_blk x b') k) as [H1 H2]. rewrite H1. split; auto. unfold view_aec_total, done_total. cbn [x_done x_blk with_blk].
    unfold blk_view_aec. rewrite (den_view _ _ _ k H). reflexivity.
  - cbn [fst]. split; [|exists gas'; exact H]. unfold view_aec_total, done_total. cbn [x_done x_blk with_blk].
    unfold blk_view_aec. rewrite (den_view _ _ _ k H). reflexivity.
Qed.

Theorem xstep_view_aec x o : aec_inv2 x -> forall k,
  view_aec_total (fst (xstep x o)) k = view_aec_total x k + (match o with XAec ga _ => new_aec (b_bp (x_blk x)) ga k | _ => 0 end).
Proof.
  intros [gas H] k.
  assert (V : view_aec_total x k = done_total x k + den_total k (b_aecs (x_blk x)) gas).
  { unfold view_aec_total, done_total, blk_view_aec. rewrite (den_view _ _ _ k H). reflexivity. }
  destruct o as [gr st|ga st|gm st| |e|bp|i]; cbn [xstep]; rewrite ?N.add_0_r.
  - destruct (add_qr_aec_den gr st _ _ H) as [H' E]. destruct (buffer_aec_view (add_qr gr st) x k gas H') as [B _].
    unfold buffer_qr. rewrite B, E, V. reflexivity.
  - destruct (add_aec_den ga st _ _ H) as (gas' & H' & T). destruct (buffer_aec_view (add_aec ga st) x k gas' H') as [B _].
    unfold buffer_aec. rewrite B, T, V. lia.
  - destruct (add_mm_aec_den gm st _ _ H) as [H' E]. destruct (buffer_aec_view (add_mm gm st) x k gas H') as [B _].
    unfold buffer_mm. rewrite B, E, V. reflexivity.
  - apply write_block_aec.
  - unfold rotate. destruct e.
    + pose proof (write_block_aec x k) as [W _]. destruct (write_block x) as [x1 r1]. cbn [fst] in W.
      destruct (if 0 <? x_written x1 then _ else _). exact W.
    + destruct (if 0 <? x_written x then _ else _). reflexivity.
  - reflexivity.
  - unfold set_active. destruct (_ <=? _); reflexivity.
Qed.
Theorem xstep_aec_inv x o : aec_inv2 x -> aec_inv2 (fst (xstep x o)).
Proof.
  intros [gas H].
  destruct o as [gr st|ga st|gm st| |e|bp|i]; cbn [xstep].
  - destruct (add_qr_aec_den gr st _ _ H) as [H' E]. apply (buffer_aec_view (add_qr gr st) x [] gas H').
  - destruct (add_aec_den ga st _ _ H) as (gas' & H' & T). apply (buffer_aec_view (add_aec ga st) x [] gas' H').
  - destruct (add_mm_aec_den gm st _ _ H) as [H' E]. apply (buffer_aec_view (add_mm gm st) x [] gas H').
  - apply (write_block_aec x []).
  - unfold rotate. destruct e.
    + pose proof (write_block_aec x []) as [_ W]. destruct (write_block x) as [x1 r1]. cbn [fst] in W.
      destruct (if 0 <? x_written x1 then _ else _). exact W.
    + destruct (if 0 <? x_written x then _ else _). exists gas. exact H.
  - exists gas. exact H.
  - unfold set_active. destruct (_ <=? _); exists gas; exact H.
Qed.
Theorem xrun_view_aec ops : forall x, aec_inv2 x -> forall k, view_aec_total (xrun x ops) k = view_aec_total x k + log_aec x ops k.
Proof.
  induction ops as [|o ops IH]; intros x H k; cbn [xrun fold_left log_aec]; [lia|].
  unfold xrun in IH. rewrite (IH _ (xstep_aec_inv x o H) k), (xstep_view_aec x o H k). lia.
Qed.
Lemma x_new_aec_inv pre : aec_inv2 (x_new pre).
Proof.
  exists []. unfold x_new, aec_den.
  destruct pre as [| | | | |[|ma [|mi [|pv [|[[| | | |ps|]|] [|? ?]]]]]]; constructor.
Qed.

(* the one-pass form the harness evaluates *)
Lemma count_key_app k a b : count_key k (a ++ b) = count_key k a + count_key k b.
Proof. unfold count_key. induction a as [|x a IH]; cbn [app fold_right]; [lia|]. rewrite IH. lia. Qed.
Theorem log_aec_count ops : forall x k, log_aec x ops k = count_key k (log_aec_keys x ops).
Proof.
  induction ops as [|o ops IH]; intros x k; cbn [log_aec log_aec_keys]; [reflexivity|].
  rewrite count_key_app, IH. f_equal. destruct o; try reflexivity. unfold new_aec.
  destruct (N.testbit (h_other (b_bp (x_blk x))) 1); [|reflexivity]. cbn [count_key fold_right]. lia.
Qed.
