(* Properties_C07.v — C07: the CBOR decoder accepts every well-formed encoding and skips exactly one item.
   [item]/[ser]/[wf] (Cbor.v) are the RFC 8949 grammar written independently of the code; each theorem says
   that the matching read operation, run on [ser x ++ rest] for ANY continuation [rest], returns the value
   RFC 8949 assigns to the encoding and leaves exactly [rest].  Only statements live here. *)
Require Import Base Cbor DecoderModel DecoderProofs.
Local Open Scope N_scope.

(* unsigned integers: every head width (also non-preferred ones), every value below 2^64 *)
Theorem C07_read_unsigned : forall w n rest, wfits w n ->
  run read_unsigned (ser (IInt false w n) ++ rest) = (inl n, rest).
Proof. exact read_unsigned_spec. Qed.
Print Assumptions C07_read_unsigned.

(* negative integers representable in the int64 return type: -1 - n *)
Theorem C07_read_negative : forall w n rest, wfits w n -> n < two63 ->
  run read_negative (ser (IInt true w n) ++ rest) = (inl (-1 - Z.of_N n)%Z, rest).
Proof. intros. rewrite read_negative_spec, neg_of_small by auto. reflexivity. Qed.
Print Assumptions C07_read_negative.

Theorem C07_read_integer : forall neg w n rest, wfits w n -> n < two63 ->
  run read_integer (ser (IInt neg w n) ++ rest) = (inl (if neg then (-1 - Z.of_N n)%Z else Z.of_N n), rest).
Proof. intros. rewrite read_integer_spec by auto. destruct neg; [rewrite neg_of_small|rewrite clamp_i64_small]; auto. Qed.
Print Assumptions C07_read_integer.

Theorem C07_read_bool : forall (b : bool) rest,
  run read_bool (ser (ISeven W0 (if b then 21 else 20)) ++ rest) = (inl b, rest).
Proof. exact read_bool_spec. Qed.
Print Assumptions C07_read_bool.

(* byte / text strings, definite length: the bytes unchanged *)
Theorem C07_read_string_definite : forall t w bs g rest, wfits w (N.of_nat (length bs)) -> (length bs <= g)%nat ->
  run (read_xstring (mstr t) g) (ser (IStr t w bs) ++ rest) = (inl bs, rest).
Proof. exact read_xstring_def. Qed.
Print Assumptions C07_read_string_definite.

(* indefinite-length (chunked) strings: the concatenation of the chunks *)
Theorem C07_read_string_chunked : forall t cs g rest, Forall wf_chunk cs -> (chunks_len cs < g)%nat ->
  run (read_xstring (mstr t) g) (ser (IStrIndef t cs) ++ rest) = (inl (chunks_val cs), rest).
Proof. exact read_xstring_indef. Qed.
Print Assumptions C07_read_string_chunked.

(* array / map starts: the announced count (definite) or the indefinite flag; the members are left in place *)
Theorem C07_container_start_definite : forall m w xs rest, wf (ICont m w xs) ->
  run (read_xstart (mcont m)) (ser (ICont m w xs) ++ rest) = (inl (cnt m xs, false), flat_map ser xs ++ rest).
Proof. intros m w xs rest [H _]. cbn [ser]. rewrite <- app_assoc. apply read_xstart_def; auto. Qed.
Print Assumptions C07_container_start_definite.

Theorem C07_container_start_indefinite : forall m xs rest,
  run (read_xstart (mcont m)) (ser (IContIndef m xs) ++ rest) = (inl (0, true), flat_map ser xs ++ 255 :: rest).
Proof.
  intros m xs rest. cbn [ser app]. rewrite <- app_assoc. cbn [app].
  apply read_xstart_indef. destruct m; auto.
Qed.
Print Assumptions C07_container_start_indefinite.

Theorem C07_read_break : forall rest, run read_break (255 :: rest) = (inl tt, rest).
Proof. exact read_break_spec. Qed.
Print Assumptions C07_read_break.

(* skip_item consumes exactly one data item of the whole grammar: nested and indefinite containers, chunked
   strings, tags with their content, floats and simple values; fuel = the length of the encoding suffices *)
Theorem C07_skip : forall x g rest, wf x -> (length (ser x) <= g)%nat ->
  run (skip_item g) (ser x ++ rest) = (inl tt, rest).
Proof. exact skip_item_spec. Qed.
Print Assumptions C07_skip.

(* position independence: whatever the position of the encoding relative to the decoder's window (any window
   contents, any buffer size > 0, any amount still in the stream), the physical execution returns the result
   of the logical one and leaves the same logical remainder *)
Theorem C07_any_position : forall (B : N) (A : Type) (p : prog A) (s : phys), 0 < B -> phys_inv B s ->
  run p (logical s) = (fst (run_phys B p s), logical (snd (run_phys B p s))).
Proof.
  intros B A p s HB Hi. pose proof (phys_refines B HB p s Hi) as H.
  destruct (run_phys B p s) as [res s']. apply H.
Qed.
Print Assumptions C07_any_position.

(* non-vacuity: a nested, tagged, chunked, indefinite item meets [wf]; skipping it leaves the sentinel *)
Example C07_nonvacuous :
  let x := IContIndef true [IInt false W1 5; ITag W0 1 (IStrIndef false [(W0, [1;2]); (W1, [3])]);
                            IInt true W8 7; ICont false W2 [ISeven W4 1078530011; ISeven W0 22]] in
  wf x /\ run (skip_item 64) (ser x ++ [42]) = (inl tt, [42]) /\
  logical (snd (run_phys 3 (skip_item 64) (phys_init (ser x ++ [42])))) = [42].
Proof. cbn [wf]. split; [|split; vm_compute; reflexivity]. cbn. repeat split; try lia; repeat constructor; cbn; lia. Qed.
