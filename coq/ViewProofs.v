(* ViewProofs.v — the decoded view of an exporter: what the generic-record readers return for every item of every
   block written so far and of the block being filled.  Over every API history this view is an append-only log:
   a buffer call appends exactly the submitted record with its hint-disabled members removed (nothing if no member
   survives), and no other call changes it. *)
Require Import Base Cbor EncoderModel DecoderModel Schema Timestamp Block BlockProofs Exporter ExporterProofs E2ESpec BlockDecode.
Local Open Scope N_scope.

Definition blk_view_qr (b : blk) : list (option val) := map (gen_qr (tbs_of_tables (b_tb b))) (b_qrs b).
Definition blk_view_mm (b : blk) : list (option val) := map (gen_mm (tbs_of_tables (b_tb b))) (b_mms b).
Definition view_qrs (x : exporter) : list (option val) := flat_map blk_view_qr (x_done x) ++ blk_view_qr (x_blk x).
Definition view_mms (x : exporter) : list (option val) := flat_map blk_view_mm (x_done x) ++ blk_view_mm (x_blk x).

(* the items of the block being filled decode to [exps], now and after any later insertion into its tables *)
Definition qr_den (b : blk) (exps : list val) : Prop :=
  forall tb', tb_ext (b_tb b) tb' -> map (gen_qr (tbs_of_tables tb')) (b_qrs b) = map Some exps.
Definition mm_den (b : blk) (exps : list val) : Prop :=
  forall tb', tb_ext (b_tb b) tb' -> map (gen_mm (tbs_of_tables tb')) (b_mms b) = map Some exps.
Definition den_inv (x : exporter) : Prop := exists eq em, qr_den (x_blk x) eq /\ mm_den (x_blk x) em.

Lemma add_qr_den gr st b eq em : qr_den b eq -> mm_den b em ->
  qr_den (fst (add_qr gr st b)) (eq ++ new_qr (b_bp b) gr) /\ mm_den (fst (add_qr gr st b)) em.
Proof.
  intros Hq Hm. unfold add_qr.
  pose proof (build_qr_good (b_bp b) gr (b_tb b)) as [_ He].
  pose proof (gen_build_qr (b_bp b) gr (b_tb b)) as Hg.
  destruct (build_qr (b_bp b) gr (b_tb b)) as [tb1 item]. cbn [fst snd] in *. split.
  - intros tb' He'. cbn [b_tb b_qrs] in *. destruct (Hg tb' He') as [G F]. unfold new_qr. rewrite <- F.
    destruct (filled item).
    + rewrite !map_app. cbn [map]. rewrite G. f_equal. apply Hq. eapply tb_ext_trans; eauto.
    + rewrite app_nil_r. apply Hq. eapply tb_ext_trans; eauto.
  - intros tb' He'. cbn [b_tb b_mms] in *. apply Hm. eapply tb_ext_trans; eauto.
Qed.

Lemma add_mm_den gm st b eq em : qr_den b eq -> mm_den b em ->
  qr_den (fst (add_mm gm st b)) eq /\ mm_den (fst (add_mm gm st b)) (em ++ new_mm (b_bp b) gm).
Proof.
  intros Hq Hm. unfold add_mm, new_mm. destruct (N.testbit (h_other (b_bp b)) 0); cbn [negb].
  2:{ cbn [fst]. rewrite app_nil_r. auto. }
  pose proof (build_mm_good gm (b_tb b)) as [_ He].
  pose proof (gen_build_mm gm (b_tb b)) as Hg.
  destruct (build_mm gm (b_tb b)) as [tb1 item]. cbn [fst snd] in *. split.
  - intros tb' He'. cbn [b_tb b_qrs] in *. apply Hq. eapply tb_ext_trans; eauto.
  - intros tb' He'. cbn [b_tb b_mms] in *. destruct (Hg tb' He') as [G F]. rewrite <- F.
    destruct (filled item).
    + rewrite !map_app. cbn [map]. rewrite G. f_equal. apply Hm. eapply tb_ext_trans; eauto.
    + rewrite app_nil_r. apply Hm. eapply tb_ext_trans; eauto.
Qed.

Lemma add_aec_den ga st b eq em : qr_den b eq -> mm_den b em ->
  qr_den (fst (add_aec ga st b)) eq /\ mm_den (fst (add_aec ga st b)) em.
Proof.
  intros Hq Hm. unfold add_aec. destruct (negb _); [auto|].
  pose proof (add_to_good (b_tb b) T_ip (oval (nth_o ga 3%nat))) as [_ He].
  destruct (add_to (b_tb b) T_ip (oval (nth_o ga 3%nat))) as [tb1 ix]. cbn [fst snd] in *. split.
  - intros tb' He'. cbn [b_tb b_qrs] in *. apply Hq. eapply tb_ext_trans; eauto.
  - intros tb' He'. cbn [b_tb b_mms] in *. apply Hm. eapply tb_ext_trans; eauto.
Qed.

Lemma den_view_qr b eq : qr_den b eq -> blk_view_qr b = map Some eq.
Proof. intros H. apply H. apply tb_ext_refl. Qed.
Lemma den_view_mm b em : mm_den b em -> blk_view_mm b = map Some em.
Proof. intros H. apply H. apply tb_ext_refl. Qed.

Lemma write_block_view x :
  view_qrs (fst (write_block x)) = view_qrs x /\ view_mms (fst (write_block x)) = view_mms x /\ den_inv (fst (write_block x)).
Proof.
  pose proof (write_block_fields x) as (Hd & _ & Hq & _ & Hm & Ht).
  unfold view_qrs, view_mms, den_inv, blk_view_qr, blk_view_mm, qr_den, mm_den. rewrite Hd, Hq, Hm. cbn [map].
  destruct (item_count (x_blk x) =? 0) eqn:E.
  - apply N.eqb_eq in E. apply item_count_0 in E. destruct E as (E1 & _ & E3). rewrite E1, E3. cbn [map].
    repeat split; auto. exists [], []. split; intros; reflexivity.
  - rewrite !flat_map_app. cbn [flat_map]. rewrite !app_nil_r. repeat split; auto. exists [], []. split; intros; reflexivity.
Qed.

Lemma buffer_view add x eq' em' :
  qr_den (fst (add (x_blk x))) eq' -> mm_den (fst (add (x_blk x))) em' ->
  view_qrs (fst (buffer add x)) = flat_map blk_view_qr (x_done x) ++ map Some eq' /\
  view_mms (fst (buffer add x)) = flat_map blk_view_mm (x_done x) ++ map Some em' /\
  den_inv (fst (buffer add x)).
Proof.
  intros Hq Hm. unfold buffer. destruct (add (x_blk x)) as [b' f]. cbn [fst] in *. destruct f.
  - destruct (write_block_view (with_blk x b')) as (H1 & H2 & H3). rewrite H1, H2. unfold view_qrs, view_mms. cbn [x_done x_blk with_blk].
    rewrite (den_view_qr _ _ Hq), (den_view_mm _ _ Hm). auto.
  - cbn [fst]. unfold view_qrs, view_mms. cbn [x_done x_blk with_blk]. rewrite (den_view_qr _ _ Hq), (den_view_mm _ _ Hm).
    repeat split; auto. exists eq', em'. auto.
Qed.

Theorem xstep_view x o : den_inv x ->
  view_qrs (fst (xstep x o)) = view_qrs x ++ map Some (match o with XQr gr _ => new_qr (b_bp (x_blk x)) gr | _ => [] end) /\
  view_mms (fst (xstep x o)) = view_mms x ++ map Some (match o with XMm gm _ => new_mm (b_bp (x_blk x)) gm | _ => [] end) /\
  den_inv (fst (xstep x o)).
Proof.
  intros (eq & em & Hq & Hm).
  assert (Vq : view_qrs x = flat_map blk_view_qr (x_done x) ++ map Some eq) by (unfold view_qrs; rewrite (den_view_qr _ _ Hq); reflexivity).
  assert (Vm : view_mms x = flat_map blk_view_mm (x_done x) ++ map Some em) by (unfold view_mms; rewrite (den_view_mm _ _ Hm); reflexivity).
  destruct o as [gr st|ga st|gm st| |e|bp|i]; cbn [xstep map]; rewrite ?app_nil_r.
  - destruct (add_qr_den gr st _ _ _ Hq Hm) as [Hq' Hm'].
    destruct (buffer_view (add_qr gr st) x _ _ Hq' Hm') as (H1 & H2 & H3). unfold buffer_qr. rewrite H1, H2, Vq, Vm, map_app, app_assoc. auto.
  - destruct (add_aec_den ga st _ _ _ Hq Hm) as [Hq' Hm'].
    destruct (buffer_view (add_aec ga st) x _ _ Hq' Hm') as (H1 & H2 & H3). unfold buffer_aec. rewrite H1, H2, Vq, Vm. auto.
  - destruct (add_mm_den gm st _ _ _ Hq Hm) as [Hq' Hm'].
    destruct (buffer_view (add_mm gm st) x _ _ Hq' Hm') as (H1 & H2 & H3). unfold buffer_mm. rewrite H1, H2, Vq, Vm, map_app, app_assoc. auto.
  - apply write_block_view.
  - unfold rotate. destruct e.
    + pose proof (write_block_view x) as H. destruct (write_block x) as [x1 r1]. cbn [fst] in H.
      destruct (if 0 <? x_written x1 then _ else _). exact H.
    + destruct (if 0 <? x_written x then _ else _). cbn [fst]. repeat split; auto. exists eq, em. auto.
  - cbn [fst]. repeat split; auto. exists eq, em. auto.
  - unfold set_active. destruct (_ <=? _); cbn [fst]; repeat split; auto; exists eq, em; auto.
Qed.

Lemma x_new_den pre : den_inv (x_new pre).
Proof.
  exists [], []. unfold x_new.
  destruct pre as [| | | | |[|ma [|mi [|pv [|[[| | | |ps|]|] [|? ?]]]]]]; split; intros tb' _; reflexivity.
Qed.

Theorem xrun_view : forall ops x, den_inv x ->
  view_qrs (xrun x ops) = view_qrs x ++ map Some (log_qr x ops) /\
  view_mms (xrun x ops) = view_mms x ++ map Some (log_mm x ops) /\ den_inv (xrun x ops).
Proof.
  induction ops as [|o ops IH]; intros x Hd; cbn [xrun fold_left log_qr log_mm map].
  - rewrite !app_nil_r. auto.
  - destruct (xstep_view x o Hd) as (H1 & H2 & H3). destruct (IH _ H3) as (I1 & I2 & I3). unfold xrun in *.
    rewrite I1, I2, H1, H2, !map_app, !app_assoc. auto.
Qed.
