#!/bin/bash
# setup.sh — run once after a fresh restore, offline: builds the Coq development (full .vo), the extracted
# OCaml model driver, and the C++ drivers from /repo's current working tree (cached by content hash).
set -e
cd "$(dirname "$0")"
python3 - <<'PY'
import sys, os
sys.path.insert(0, "harness/py")
import common
common.ensure_coq_makefile()
common.gen_format()      # the Gen_*.v files come from /repo's current sources, not from what happens to be committed
vos = [f[:-2] + ".vo" for f in common.coq_files()]
ok, log = common.build_coq(vos)
print(log[-2000:])
if not ok:
    print("WARNING: some .vo files did not build"); 
common.build_mdl()
for v, tools in (("san", True), ("plain", False), ("tsan", False)):
    try:
        common.build_impl(v, tools=tools)
    except Exception as e:
        print("WARNING: build of variant %s failed: %s" % (v, str(e)[:2000]))
print("setup done")
PY
